//! Seeded generator of request-response programs; it knows the live objects of the world.

use crate::world::{Step, World};
use iceoryx2::prelude::Service;
use vlib::rng::Rng;

#[derive(Clone, Debug, Default)]
pub struct GenOpts {
    /// never send/loan a response through an active request whose client port is gone, and never
    /// create a client while such an active request exists (known defect: connection slot reuse)
    pub avoid_dead_client_send: bool,
    /// use only the copy API / only the loan API / both (0 both, 1 copy, 2 loan)
    pub api: u64,
    /// probability (percent) of port churn actions
    pub churn: u64,
    /// include the loan-to-exhaustion probes
    pub probes: bool,
}

pub fn next_step<S: Service>(w: &World<S>, rng: &mut Rng, o: &GenOpts) -> Step {
    let clients = w.live_clients();
    let servers = w.live_servers();
    let mut cand: Vec<(u64, Step)> = Vec::new();
    let mut add = |wt: u64, s: Step| cand.push((wt, s));

    let fc = w.free_client_slots();
    let fs = w.free_server_slots();
    let dead_ar = w.areq_keys().iter().any(|(_, c, _)| !clients.contains(c));
    if !fc.is_empty() && !(o.avoid_dead_client_send && dead_ar) {
        add(if clients.is_empty() { 60 } else { o.churn.max(1) }, Step::new("CreateClient", fc[0], 0, 0, 0, 0));
    }
    if !fs.is_empty() {
        add(if servers.is_empty() { 60 } else { o.churn.max(1) }, Step::new("CreateServer", 0, fs[0], 0, 0, 0));
    }
    for &c in &clients {
        if w.client_is_idle(c) {
            add(o.churn, Step::new("DropClient", c, 0, 0, 0, 0));
        }
        add(1, Step::new("UpdateClient", c, 0, 0, 0, 0));
        if o.api != 1 {
            add(8, Step::new("LoanRequest", c, 0, 0, 0, 0));
        }
        if o.api != 2 {
            add(8, Step::new("SendCopy", c, 0, 0, 0, 0));
        }
        if o.probes {
            add(1, Step::new("ProbeRequestLoans", c, 0, 0, 0, 0));
        }
    }
    for &s in &servers {
        if w.server_is_idle(s) {
            add(o.churn, Step::new("DropServer", 0, s, 0, 0, 0));
        }
        add(1, Step::new("UpdateServer", 0, s, 0, 0, 0));
        add(12, Step::new("ReceiveRequest", 0, s, 0, 0, 0));
        add(2, Step::new("HasRequests", 0, s, 0, 0, 0));
    }
    for (c, n) in w.reqloan_keys() {
        add(10, Step::new("SendRequest", c, 0, n, 0, 0));
        add(2, Step::new("DropRequest", c, 0, n, 0, 0));
    }
    for (c, n) in w.pend_keys() {
        add(10, Step::new("ReceiveResponse", c, 0, n, 0, 0));
        add(4, Step::new("DropPending", c, 0, n, 0, 0));
        add(3, Step::new("IsConnectedP", c, 0, n, 0, 0));
        add(2, Step::new("HasResponse", c, 0, n, 0, 0));
        add(1, Step::new("DisconnectHint", c, 0, n, 0, 0));
    }
    for (h, c) in w.held_keys() {
        add(5, Step::new("DropResponse", c, 0, 0, 0, h));
    }
    for (s, c, n) in w.areq_keys() {
        let dead = !clients.contains(&c);
        if !(dead && o.avoid_dead_client_send) {
            if o.api != 1 {
                add(6, Step::new("LoanResponse", c, s, n, 0, 0));
            }
            if o.api != 2 {
                add(8, Step::new("SendCopyResponse", c, s, n, 0, 0));
            }
            if o.probes {
                add(1, Step::new("ProbeResponseLoans", c, s, n, 0, 0));
            }
        }
        if !w.areq_has_loans((s, c, n)) {
            add(4, Step::new("DropActive", c, s, n, 0, 0));
        }
        add(3, Step::new("IsConnectedA", c, s, n, 0, 0));
        add(1, Step::new("HasDisconnectHint", c, s, n, 0, 0));
    }
    for (s, c, n, j) in w.rloan_keys() {
        let dead = !clients.contains(&c);
        if !(dead && o.avoid_dead_client_send) {
            add(10, Step::new("SendResponse", c, s, n, j, 0));
        }
        add(2, Step::new("DropResponseLoan", c, s, n, j, 0));
    }
    if cand.is_empty() {
        return Step::new("Nop", 0, 0, 0, 0, 0);
    }
    let total: u64 = cand.iter().map(|(w, _)| *w).sum();
    if total == 0 {
        return cand[0].1.clone();
    }
    let mut r = rng.below(total);
    for (wt, s) in &cand {
        if r < *wt {
            return s.clone();
        }
        r -= *wt;
    }
    cand[0].1.clone()
}
