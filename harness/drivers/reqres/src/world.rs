//! Executes request-response actions on REAL iceoryx2 objects and records every result.
//!
//! Object naming (small indices, stable inside one run):
//!   client slot c (1..), server slot s (1..)          a slot is used for ONE port instance
//!   request (c, n)        n = per client slot number of the successful loan / send_copy
//!   active request (s, c, n)
//!   response (s, c, n, j) j = per active request number of the successful loan / send_copy
//!   held response handle h (per run counter)
//! Payloads carry a canary derived from these ids; every record carries `bad` = number of objects
//! currently held by the driver whose payload no longer matches its canary.

use iceoryx2::active_request::ActiveRequest;
use iceoryx2::pending_response::PendingResponse;
use iceoryx2::port::client::Client;
use iceoryx2::port::server::Server;
use iceoryx2::port::update_connections::UpdateConnections;
use iceoryx2::prelude::*;
use iceoryx2::request_mut::RequestMut;
use iceoryx2::response::Response;
use iceoryx2::response_mut::ResponseMut;
use iceoryx2::service::port_factory::request_response::PortFactory as RrFactory;
use std::collections::BTreeMap;
use std::panic::{AssertUnwindSafe, catch_unwind};
use vlib::{Value, json};

pub const MAGIC: u64 = 0x5EC0_DE5A_FE11_0000;

#[repr(C)]
#[derive(Debug, Clone, Copy, PartialEq, Eq, ZeroCopySend)]
#[type_name("VerifReqResMsg")]
pub struct Msg {
    pub magic: u64,
    pub kind: u64, // 1 request, 2 response
    pub c: u64,
    pub n: u64,
    pub s: u64,
    pub j: u64,
    pub chk: u64,
    pub fill: [u64; 9],
}

impl Default for Msg {
    fn default() -> Self {
        Msg { magic: 0, kind: 0, c: 0, n: 0, s: 0, j: 0, chk: 0, fill: [0; 9] }
    }
}

fn mix(kind: u64, c: u64, n: u64, s: u64, j: u64) -> u64 {
    let mut z = MAGIC ^ kind.wrapping_mul(0x9E37_79B9_7F4A_7C15);
    for v in [c, n, s, j] {
        z = (z ^ v).wrapping_mul(0xBF58_476D_1CE4_E5B9);
        z ^= z >> 29;
    }
    z
}

impl Msg {
    pub fn request(c: u64, n: u64) -> Msg {
        Msg::make(1, c, n, 0, 0)
    }
    pub fn response(c: u64, n: u64, s: u64, j: u64) -> Msg {
        Msg::make(2, c, n, s, j)
    }
    fn make(kind: u64, c: u64, n: u64, s: u64, j: u64) -> Msg {
        let chk = mix(kind, c, n, s, j);
        let mut fill = [0u64; 9];
        for (i, f) in fill.iter_mut().enumerate() {
            *f = chk.rotate_left(i as u32 * 7 + 1) ^ (i as u64);
        }
        Msg { magic: MAGIC, kind, c, n, s, j, chk, fill }
    }
    /// canary intact?
    pub fn intact(&self) -> bool {
        *self == Msg::make(self.kind, self.c, self.n, self.s, self.j) && (self.kind == 1 || self.kind == 2)
    }
}

#[derive(Clone, Debug)]
pub struct Cfg {
    pub svc: String,
    pub nc: u64,  // client slots
    pub ns: u64,  // server slots
    pub ma: u64,  // max_active_requests_per_client
    pub ml: u64,  // max_loaned_requests
    pub rb: u64,  // max_response_buffer_size
    pub mb: u64,  // max_borrowed_responses_per_pending_response
    pub mlr: u64, // server: max_loaned_responses_per_request
    pub oq: bool, // safe overflow for requests
    pub op: bool, // safe overflow for responses
    pub ff: bool, // fire and forget
    pub msv: u64, // max_servers
    pub mcl: u64, // max_clients
    pub xb: u64,  // client / server expired connection buffer of the node configuration (0: the default, 128)
}

impl Cfg {
    pub fn from_json(v: &Value) -> Cfg {
        let u = |k: &str, d: u64| v.get(k).and_then(|x| x.as_u64()).unwrap_or(d);
        let b = |k: &str, d: bool| v.get(k).and_then(|x| x.as_bool()).unwrap_or(d);
        Cfg {
            svc: v.get("svc").and_then(|x| x.as_str()).unwrap_or("ipc").to_string(),
            nc: u("nc", 2),
            ns: u("ns", 2),
            ma: u("ma", 1),
            ml: u("ml", 1),
            rb: u("rb", 2),
            mb: u("mb", 1),
            mlr: u("mlr", 1),
            oq: b("oq", false),
            op: b("op", false),
            ff: b("ff", false),
            msv: u("msv", 1),
            mcl: u("mcl", 2),
            xb: u("xb", 0),
        }
    }
    pub fn to_json(&self) -> Value {
        json!({"svc": self.svc, "nc": self.nc, "ns": self.ns, "ma": self.ma, "ml": self.ml, "rb": self.rb,
               "mb": self.mb, "mlr": self.mlr, "oq": self.oq, "op": self.op, "ff": self.ff,
               "msv": self.msv, "mcl": self.mcl, "xb": self.xb})
    }
}

type Cl<S> = Client<S, Msg, (), Msg, ()>;
type Sv<S> = Server<S, Msg, (), Msg, ()>;
type Pr<S> = PendingResponse<S, Msg, (), Msg, ()>;
type Ar<S> = ActiveRequest<S, Msg, (), Msg, ()>;
type RqM<S> = RequestMut<S, Msg, (), Msg, ()>;
type RsM<S> = ResponseMut<S, Msg, ()>;
type Rs<S> = Response<S, Msg, ()>;

/// one action of a program
#[derive(Clone, Debug, Default)]
pub struct Step {
    pub a: String,
    pub c: u64,
    pub s: u64,
    pub n: u64,
    pub j: u64,
    pub h: u64,
    /// 0: the ids name the object; 1 / 2: the object of that kind with the smallest / largest key that the
    /// acting port currently owns (concurrent programs: the live objects depend on the schedule)
    pub sel: u64,
}

impl Step {
    pub fn from_json(v: &Value) -> Step {
        let u = |k: &str| v.get(k).and_then(|x| x.as_u64()).unwrap_or(0);
        Step {
            a: v.get("a").and_then(|x| x.as_str()).unwrap_or("").to_string(),
            c: u("c"),
            s: u("s"),
            n: u("n"),
            j: u("j"),
            h: u("h"),
            sel: u("sel"),
        }
    }
    pub fn new(a: &str, c: u64, s: u64, n: u64, j: u64, h: u64) -> Step {
        Step { a: a.to_string(), c, s, n, j, h, sel: 0 }
    }
    pub fn to_json(&self) -> Value {
        json!({"a": self.a, "c": self.c, "s": self.s, "n": self.n, "j": self.j, "h": self.h, "sel": self.sel})
    }
}

/// the uniform `op` record
#[derive(Clone, Debug, Default)]
pub struct Rec {
    pub a: String,
    pub c: u64,
    pub s: u64,
    pub n: u64,
    pub j: u64,
    pub h: u64,
    pub r: String,
    pub ch: i64,  // channel id (-1 = not applicable)
    pub x: u64,   // chunk index (0 = not observable / not applicable)
    pub rid: i64, // real request id (-1 = n/a)
    pub pc: u64,  // ids decoded from the payload
    pub pn: u64,
    pub ps: u64,
    pub pj: u64,
    pub ok: u64,  // 1 = canary / header consistent (or n/a)
    pub v: u64,   // misc number: number_of_server_connections, probe count, number of chunks
    pub bad: u64,
}

impl Rec {
    pub fn of(st: &Step) -> Rec {
        Rec { a: st.a.clone(), c: st.c, s: st.s, n: st.n, j: st.j, h: st.h, ch: -1, rid: -1, ok: 1, ..Default::default() }
    }
    pub fn to_json(&self) -> Value {
        self.to_json_kind("op", 0)
    }
    /// `op` (sequential), `call` / `ret` (concurrent, t = thread)
    pub fn to_json_kind(&self, kind: &str, t: u64) -> Value {
        json!({"k": kind, "t": t, "d": 0, "a": self.a, "c": self.c, "s": self.s, "n": self.n, "j": self.j, "h": self.h,
               "r": self.r, "ch": self.ch, "x": self.x, "rid": self.rid, "pc": self.pc, "pn": self.pn,
               "ps": self.ps, "pj": self.pj, "ok": self.ok, "v": self.v, "bad": self.bad})
    }
}

fn innermost<E: core::fmt::Debug>(e: &E) -> String {
    let s = format!("{e:?}");
    let t = s.trim_end_matches(')');
    match t.rfind('(') {
        Some(i) => t[i + 1..].to_string(),
        None => t.to_string(),
    }
}

fn parse_field(dbg: &str, key: &str) -> i64 {
    // "... channel_id: ChannelId(3), request_id: ChannelState(7), ..."
    if let Some(i) = dbg.find(key) {
        let rest = &dbg[i + key.len()..];
        if let Some(p) = rest.find('(') {
            let digits: String = rest[p + 1..].chars().take_while(|c| c.is_ascii_digit()).collect();
            if let Ok(v) = digits.parse::<u64>() {
                return (v & 0x3fff_ffff) as i64;
            }
        }
    }
    -2
}

struct HeldResp<S: Service> {
    c: u64,
    resp: Rs<S>,
    seen: Msg,
}

/// which thread of a concurrent execution owns an action (sequential runs use both sides)
#[derive(Clone, Copy, PartialEq, Eq, Debug)]
pub enum Side {
    Client,
    Server,
    None,
}

pub fn side_of(a: &str) -> Side {
    match a {
        "CreateClient" | "DropClient" | "UpdateClient" | "LoanRequest" | "SendRequest" | "SendCopy" | "DropRequest"
        | "DropPending" | "ReceiveResponse" | "DropResponse" | "IsConnectedP" | "HasResponse" | "DisconnectHint"
        | "ProbeRequestLoans" => Side::Client,
        "CreateServer" | "DropServer" | "UpdateServer" | "ReceiveRequest" | "HasRequests" | "LoanResponse"
        | "LoanResponseAny" | "SendResponse" | "SendCopyResponse" | "DropResponseLoan" | "DropActive" | "IsConnectedA"
        | "HasDisconnectHint" | "ProbeResponseLoans" => Side::Server,
        _ => Side::None,
    }
}

/// Is an address backed by a mapping of this process?  A connection that is discarded while chunks of it
/// are still borrowed unmaps the data segment: the canary check must report that instead of dying of it.
pub struct Maps(Vec<(usize, usize)>);

impl Maps {
    pub fn read() -> Maps {
        let mut v: Vec<(usize, usize)> = Vec::new();
        if let Ok(s) = std::fs::read_to_string("/proc/self/maps") {
            for line in s.lines() {
                let Some(range) = line.split_whitespace().next() else { continue };
                let Some((a, b)) = range.split_once('-') else { continue };
                if let (Ok(a), Ok(b)) = (usize::from_str_radix(a, 16), usize::from_str_radix(b, 16)) {
                    // adjacent mappings are merged (an object may span two of them)
                    match v.last_mut() {
                        Some(last) if last.1 == a => last.1 = b,
                        _ => v.push((a, b)),
                    }
                }
            }
        }
        Maps(v)
    }
    pub fn covers<T>(&self, p: *const T) -> bool {
        let (a, b) = (p as usize, p as usize + core::mem::size_of::<T>());
        self.0.is_empty() || self.0.iter().any(|(s, e)| *s <= a && b <= *e)
    }
}

fn intact_at(maps: &Maps, p: *const Msg, want: &Msg) -> bool {
    maps.covers(p) && unsafe { *p == *want }
}

fn idx_of(map: &mut BTreeMap<usize, u64>, addr: usize) -> u64 {
    let next = map.len() as u64 + 1;
    *map.entry(addr).or_insert(next)
}

fn panic_msg(p: Box<dyn std::any::Any + Send>) -> String {
    p.downcast_ref::<String>()
        .cloned()
        .or_else(|| p.downcast_ref::<&str>().map(|s| s.to_string()))
        .unwrap_or_else(|| "?".into())
}

type Factory<S> = RrFactory<S, Msg, (), Msg, ()>;

/// everything the client thread of a concurrent execution owns
pub struct ClientSide<S: Service> {
    pub cfg: Cfg,
    clients: BTreeMap<u64, Cl<S>>,
    used_c: BTreeMap<u64, bool>,
    reqloans: BTreeMap<(u64, u64), RqM<S>>,
    pend: BTreeMap<(u64, u64), Pr<S>>,
    held: BTreeMap<u64, HeldResp<S>>,
    next_n: BTreeMap<u64, u64>,
    next_h: u64,
    req_addr: BTreeMap<u64, BTreeMap<usize, u64>>,
    pub counts: BTreeMap<String, u64>,
    pub poisoned: bool,
}

/// everything the server thread of a concurrent execution owns
pub struct ServerSide<S: Service> {
    pub cfg: Cfg,
    servers: BTreeMap<u64, Sv<S>>,
    used_s: BTreeMap<u64, bool>,
    areq: BTreeMap<(u64, u64, u64), Ar<S>>,
    rloans: BTreeMap<(u64, u64, u64, u64), RsM<S>>,
    next_j: BTreeMap<(u64, u64, u64), u64>,
    resp_addr: BTreeMap<u64, BTreeMap<usize, u64>>,
    pub counts: BTreeMap<String, u64>,
    pub poisoned: bool,
    /// sequential runs record ActiveRequest::is_connected() right after receive() as part of the ReceiveRequest
    /// record (v = 0 / 1); in a concurrent execution that is a second call with its own place in the history, the
    /// record then says v = 2 (not observed) and the program observes it with an IsConnectedA step
    pub conn_in_receive: bool,
}

pub struct World<S: Service> {
    pub cfg: Cfg,
    _node: Node<S>,
    svc: Factory<S>,
    pub cs: ClientSide<S>,
    pub ss: ServerSide<S>,
    pub nreq: u64,
    pub nresp: u64,
}

fn make_client<S: Service>(svc: &Factory<S>) -> Result<Cl<S>, String> {
    svc.client_builder()
        .backpressure_strategy(BackpressureStrategy::DiscardData)
        .create()
        .map_err(|e| innermost(&e))
}

fn make_server<S: Service>(svc: &Factory<S>, cfg: &Cfg) -> Result<Sv<S>, String> {
    svc.server_builder()
        .backpressure_strategy(BackpressureStrategy::DiscardData)
        .max_loaned_responses_per_request(cfg.mlr as usize)
        .create()
        .map_err(|e| innermost(&e))
}

// =================================================================================================
// client side

impl<S: Service> ClientSide<S> {
    fn new(cfg: &Cfg) -> Self {
        ClientSide {
            cfg: cfg.clone(),
            clients: BTreeMap::new(),
            used_c: BTreeMap::new(),
            reqloans: BTreeMap::new(),
            pend: BTreeMap::new(),
            held: BTreeMap::new(),
            next_n: BTreeMap::new(),
            next_h: 1,
            req_addr: BTreeMap::new(),
            counts: BTreeMap::new(),
            poisoned: false,
        }
    }

    /// number of held objects whose payload does not show their canary any more (or is not mapped any more)
    pub fn count_bad(&self) -> u64 {
        if self.reqloans.is_empty() && self.pend.is_empty() && self.held.is_empty() {
            return 0;
        }
        let maps = Maps::read();
        let mut bad = 0;
        for ((c, n), r) in &self.reqloans {
            if !intact_at(&maps, r.payload() as *const Msg, &Msg::request(*c, *n)) {
                bad += 1;
            }
        }
        for ((c, n), p) in &self.pend {
            if !intact_at(&maps, p.payload() as *const Msg, &Msg::request(*c, *n)) {
                bad += 1;
            }
        }
        for h in self.held.values() {
            if !intact_at(&maps, h.resp.payload() as *const Msg, &h.seen) {
                bad += 1;
            }
        }
        bad
    }

    pub fn is_idle(&self, c: u64) -> bool {
        !self.reqloans.keys().any(|k| k.0 == c) && !self.pend.keys().any(|k| k.0 == c) && !self.held.values().any(|h| h.c == c)
    }

    /// replaces a selector by the ids of the object it selects; false: no such object
    fn resolve(&self, st: &mut Step) -> bool {
        if st.sel == 0 {
            return true;
        }
        let first = st.sel == 1;
        let pick2 = |mut v: Vec<(u64, u64)>| -> Option<(u64, u64)> {
            v.sort();
            if first { v.first().copied() } else { v.last().copied() }
        };
        match st.a.as_str() {
            "SendRequest" | "DropRequest" => match pick2(self.reqloans.keys().filter(|k| k.0 == st.c).copied().collect()) {
                Some((_, n)) => st.n = n,
                None => return false,
            },
            "DropPending" | "ReceiveResponse" | "IsConnectedP" | "HasResponse" | "DisconnectHint" => {
                match pick2(self.pend.keys().filter(|k| k.0 == st.c).copied().collect()) {
                    Some((_, n)) => st.n = n,
                    None => return false,
                }
            }
            "DropResponse" => match pick2(self.held.iter().filter(|(_, r)| r.c == st.c).map(|(h, _)| (*h, 0)).collect()) {
                Some((h, _)) => st.h = h,
                None => return false,
            },
            _ => {}
        }
        st.sel = 0;
        true
    }

    fn exec_inner(&mut self, svc: Option<&Factory<S>>, st: &Step, rec: &mut Rec) -> bool {
        match st.a.as_str() {
            "CreateClient" => {
                let Some(svc) = svc else { return false };
                if self.used_c.contains_key(&st.c) || st.c == 0 || st.c > self.cfg.nc {
                    return false;
                }
                match make_client(svc) {
                    Ok(cl) => {
                        let id = cl.id();
                        let mut chunks = 0;
                        svc.dynamic_config().list_clients(|d| {
                            if d.client_id == id {
                                chunks = d.number_of_requests as u64;
                            }
                            CallbackProgression::Continue
                        });
                        rec.v = chunks;
                        rec.r = "ok".into();
                        self.used_c.insert(st.c, true);
                        self.clients.insert(st.c, cl);
                    }
                    Err(e) => rec.r = e,
                }
            }
            "DropClient" => {
                if !self.clients.contains_key(&st.c) || !self.is_idle(st.c) {
                    return false;
                }
                self.clients.remove(&st.c);
                rec.r = "ok".into();
            }
            "UpdateClient" => {
                let Some(cl) = self.clients.get(&st.c) else { return false };
                rec.r = match cl.update_connections() {
                    Ok(()) => "ok".into(),
                    Err(e) => innermost(&e),
                };
            }
            "LoanRequest" => {
                let Some(cl) = self.clients.get(&st.c) else { return false };
                match cl.loan_uninit() {
                    Ok(req) => {
                        let n = *self.next_n.entry(st.c).and_modify(|v| *v += 1).or_insert(1);
                        let req = req.write_payload(Msg::request(st.c, n));
                        let hd = format!("{:?}", req.header());
                        rec.n = n;
                        rec.ch = parse_field(&hd, "channel_id:");
                        rec.rid = parse_field(&hd, "request_id:");
                        rec.x = idx_of(self.req_addr.entry(st.c).or_default(), req.payload() as *const Msg as usize);
                        rec.r = "ok".into();
                        self.reqloans.insert((st.c, n), req);
                    }
                    Err(e) => rec.r = innermost(&e),
                }
            }
            "SendRequest" => {
                let Some(req) = self.reqloans.remove(&(st.c, st.n)) else { return false };
                match req.send() {
                    Ok(p) => {
                        let hd = format!("{:?}", p.header());
                        rec.ch = parse_field(&hd, "channel_id:");
                        rec.rid = parse_field(&hd, "request_id:");
                        rec.v = p.number_of_server_connections() as u64;
                        rec.x = idx_of(self.req_addr.entry(st.c).or_default(), p.payload() as *const Msg as usize);
                        rec.r = "ok".into();
                        self.pend.insert((st.c, st.n), p);
                    }
                    Err(e) => rec.r = innermost(&e),
                }
            }
            "SendCopy" => {
                // copy API: loan + send in one call; the request number is consumed only on success
                let Some(cl) = self.clients.get(&st.c) else { return false };
                let n = self.next_n.get(&st.c).copied().unwrap_or(0) + 1;
                match cl.send_copy(Msg::request(st.c, n)) {
                    Ok(p) => {
                        self.next_n.insert(st.c, n);
                        let hd = format!("{:?}", p.header());
                        rec.n = n;
                        rec.ch = parse_field(&hd, "channel_id:");
                        rec.rid = parse_field(&hd, "request_id:");
                        rec.v = p.number_of_server_connections() as u64;
                        rec.x = idx_of(self.req_addr.entry(st.c).or_default(), p.payload() as *const Msg as usize);
                        rec.r = "ok".into();
                        self.pend.insert((st.c, n), p);
                    }
                    Err(e) => rec.r = innermost(&e),
                }
            }
            "DropRequest" => {
                if self.reqloans.remove(&(st.c, st.n)).is_none() {
                    return false;
                }
                rec.r = "ok".into();
            }
            "DropPending" => {
                if self.pend.remove(&(st.c, st.n)).is_none() {
                    return false;
                }
                rec.r = "ok".into();
            }
            "ReceiveResponse" => {
                let Some(p) = self.pend.get(&(st.c, st.n)) else { return false };
                let my_rid = parse_field(&format!("{:?}", p.header()), "request_id:");
                match p.receive() {
                    Ok(Some(resp)) => {
                        if !Maps::read().covers(resp.payload() as *const Msg) {
                            // a response that points into memory that is not mapped: keep it, flag it
                            rec.r = "some".into();
                            rec.ok = 0;
                            std::mem::forget(resp);
                            return true;
                        }
                        let m = *resp.payload();
                        rec.r = "some".into();
                        rec.pc = m.c;
                        rec.pn = m.n;
                        rec.ps = m.s;
                        rec.pj = m.j;
                        rec.rid = parse_field(&format!("{:?}", resp.header()), "request_id:");
                        rec.ok = (m.intact() && m.kind == 2 && rec.rid == my_rid) as u64;
                        let h = self.next_h;
                        self.next_h += 1;
                        rec.h = h;
                        self.held.insert(h, HeldResp { c: st.c, resp, seen: m });
                    }
                    Ok(None) => rec.r = "none".into(),
                    Err(e) => rec.r = innermost(&e),
                }
            }
            "DropResponse" => {
                // by handle (generator) or by the ids the response carries (programs from TLC)
                let h = if st.h != 0 {
                    st.h
                } else {
                    match self.held.iter().find(|(_, r)| r.c == st.c && r.seen.s == st.s && r.seen.n == st.n && r.seen.j == st.j) {
                        Some((h, _)) => *h,
                        None => return false,
                    }
                };
                let Some(hr) = self.held.remove(&h) else { return false };
                rec.h = h;
                rec.c = hr.c;
                rec.s = hr.seen.s;
                rec.n = hr.seen.n;
                rec.j = hr.seen.j;
                rec.r = "ok".into();
            }
            "IsConnectedP" => {
                let Some(p) = self.pend.get(&(st.c, st.n)) else { return false };
                rec.r = p.is_connected().to_string();
            }
            "HasResponse" => {
                let Some(p) = self.pend.get(&(st.c, st.n)) else { return false };
                rec.r = p.has_response().to_string();
            }
            "DisconnectHint" => {
                let Some(p) = self.pend.get(&(st.c, st.n)) else { return false };
                p.set_disconnect_hint();
                rec.r = "ok".into();
            }
            "ProbeRequestLoans" => {
                // loans until failure, then drops everything it loaned (DESIGN.md C02 probe)
                let Some(cl) = self.clients.get(&st.c) else { return false };
                let mut got = Vec::new();
                let err;
                loop {
                    match cl.loan_uninit() {
                        Ok(r) => got.push(r.write_payload(Msg::default())),
                        Err(e) => {
                            err = innermost(&e);
                            break;
                        }
                    }
                    if got.len() > 64 {
                        err = "unbounded".to_string();
                        break;
                    }
                }
                rec.v = got.len() as u64;
                rec.r = err;
            }
            _ => return false,
        }
        true
    }

    fn clear(&mut self) {
        self.held.clear();
        self.reqloans.clear();
        self.pend.clear();
        self.clients.clear();
    }
}

// =================================================================================================
// server side

impl<S: Service> ServerSide<S> {
    fn new(cfg: &Cfg) -> Self {
        ServerSide {
            cfg: cfg.clone(),
            servers: BTreeMap::new(),
            used_s: BTreeMap::new(),
            areq: BTreeMap::new(),
            rloans: BTreeMap::new(),
            next_j: BTreeMap::new(),
            resp_addr: BTreeMap::new(),
            counts: BTreeMap::new(),
            poisoned: false,
            conn_in_receive: true,
        }
    }

    pub fn count_bad(&self) -> u64 {
        if self.areq.is_empty() && self.rloans.is_empty() {
            return 0;
        }
        let maps = Maps::read();
        let mut bad = 0;
        for ((_s, c, n), a) in &self.areq {
            if !intact_at(&maps, a.payload() as *const Msg, &Msg::request(*c, *n)) {
                bad += 1;
            }
        }
        for ((s, c, n, j), l) in &self.rloans {
            if !intact_at(&maps, l.payload() as *const Msg, &Msg::response(*c, *n, *s, *j)) {
                bad += 1;
            }
        }
        bad
    }

    pub fn is_idle(&self, s: u64) -> bool {
        !self.areq.keys().any(|k| k.0 == s) && !self.rloans.keys().any(|k| k.0 == s)
    }
    pub fn areq_has_loans(&self, k: (u64, u64, u64)) -> bool {
        self.rloans.keys().any(|l| (l.0, l.1, l.2) == k)
    }

    fn resolve(&self, st: &mut Step) -> bool {
        if st.sel == 0 {
            return true;
        }
        let first = st.sel == 1;
        match st.a.as_str() {
            "LoanResponse" | "SendCopyResponse" | "DropActive" | "IsConnectedA" | "HasDisconnectHint" | "ProbeResponseLoans" => {
                let mut v: Vec<(u64, u64, u64)> = self
                    .areq
                    .keys()
                    .filter(|k| k.0 == st.s && !(st.a == "DropActive" && self.areq_has_loans(**k)))
                    .copied()
                    .collect();
                v.sort();
                match if first { v.first() } else { v.last() } {
                    Some((_, c, n)) => {
                        st.c = *c;
                        st.n = *n;
                    }
                    None => return false,
                }
            }
            "SendResponse" | "DropResponseLoan" => {
                let mut v: Vec<(u64, u64, u64, u64)> = self.rloans.keys().filter(|k| k.0 == st.s).copied().collect();
                v.sort();
                match if first { v.first() } else { v.last() } {
                    Some((_, c, n, j)) => {
                        st.c = *c;
                        st.n = *n;
                        st.j = *j;
                    }
                    None => return false,
                }
            }
            _ => {}
        }
        st.sel = 0;
        true
    }

    fn exec_inner(&mut self, svc: Option<&Factory<S>>, st: &Step, rec: &mut Rec) -> bool {
        if st.a == "LoanResponseAny" {
            // loan through the active request of server s that has the fewest outstanding loans
            let pick = self
                .areq
                .keys()
                .filter(|k| k.0 == st.s)
                .min_by_key(|k| self.rloans.keys().filter(|l| (l.0, l.1, l.2) == **k).count())
                .copied();
            let Some((s, c, n)) = pick else { return false };
            let st2 = Step::new("LoanResponse", c, s, n, 0, 0);
            rec.a = st2.a.clone();
            rec.c = c;
            rec.n = n;
            return self.exec_inner(svc, &st2, rec);
        }
        match st.a.as_str() {
            "CreateServer" => {
                let Some(svc) = svc else { return false };
                if self.used_s.contains_key(&st.s) || st.s == 0 || st.s > self.cfg.ns {
                    return false;
                }
                match make_server(svc, &self.cfg) {
                    Ok(sv) => {
                        let id = sv.id();
                        let mut chunks = 0;
                        svc.dynamic_config().list_servers(|d| {
                            if d.server_id == id {
                                chunks = d.number_of_responses as u64;
                            }
                            CallbackProgression::Continue
                        });
                        rec.v = chunks;
                        rec.r = "ok".into();
                        self.used_s.insert(st.s, true);
                        self.servers.insert(st.s, sv);
                    }
                    Err(e) => rec.r = e,
                }
            }
            "DropServer" => {
                if !self.servers.contains_key(&st.s) || !self.is_idle(st.s) {
                    return false;
                }
                self.servers.remove(&st.s);
                rec.r = "ok".into();
            }
            "UpdateServer" => {
                let Some(sv) = self.servers.get(&st.s) else { return false };
                rec.r = match sv.update_connections() {
                    Ok(()) => "ok".into(),
                    Err(e) => innermost(&e),
                };
            }
            "ReceiveRequest" => {
                let Some(sv) = self.servers.get(&st.s) else { return false };
                match sv.receive() {
                    Ok(Some(ar)) => {
                        if !Maps::read().covers(ar.payload() as *const Msg) {
                            rec.r = "some".into();
                            rec.ok = 0;
                            std::mem::forget(ar);
                            return true;
                        }
                        let m = *ar.payload();
                        let hd = format!("{:?}", ar.header());
                        rec.r = "some".into();
                        rec.c = m.c;
                        rec.n = m.n;
                        rec.pc = m.c;
                        rec.pn = m.n;
                        rec.ch = parse_field(&hd, "channel_id:");
                        rec.rid = parse_field(&hd, "request_id:");
                        rec.ok = (m.intact() && m.kind == 1) as u64;
                        rec.v = if self.conn_in_receive { ar.is_connected() as u64 } else { 2 };
                        if self.areq.contains_key(&(st.s, m.c, m.n)) {
                            // the same request delivered twice to one server: keep both alive, flag it
                            rec.r = "duplicate".into();
                            std::mem::forget(ar);
                        } else {
                            self.areq.insert((st.s, m.c, m.n), ar);
                        }
                    }
                    Ok(None) => rec.r = "none".into(),
                    Err(e) => rec.r = innermost(&e),
                }
            }
            "HasRequests" => {
                let Some(sv) = self.servers.get(&st.s) else { return false };
                rec.r = match sv.has_requests() {
                    Ok(b) => b.to_string(),
                    Err(e) => innermost(&e),
                };
            }
            "LoanResponse" => {
                let Some(ar) = self.areq.get(&(st.s, st.c, st.n)) else { return false };
                match ar.loan_uninit() {
                    Ok(l) => {
                        let j = *self.next_j.entry((st.s, st.c, st.n)).and_modify(|v| *v += 1).or_insert(1);
                        let l = l.write_payload(Msg::response(st.c, st.n, st.s, j));
                        rec.j = j;
                        rec.x = idx_of(self.resp_addr.entry(st.s).or_default(), l.payload() as *const Msg as usize);
                        rec.rid = parse_field(&format!("{:?}", l.header()), "request_id:");
                        rec.r = "ok".into();
                        self.rloans.insert((st.s, st.c, st.n, j), l);
                    }
                    Err(e) => rec.r = innermost(&e),
                }
            }
            "SendResponse" => {
                let Some(l) = self.rloans.remove(&(st.s, st.c, st.n, st.j)) else { return false };
                rec.r = match l.send() {
                    Ok(()) => "ok".into(),
                    Err(e) => innermost(&e),
                };
            }
            "SendCopyResponse" => {
                let Some(ar) = self.areq.get(&(st.s, st.c, st.n)) else { return false };
                let j = self.next_j.get(&(st.s, st.c, st.n)).copied().unwrap_or(0) + 1;
                match ar.send_copy(Msg::response(st.c, st.n, st.s, j)) {
                    Ok(()) => {
                        self.next_j.insert((st.s, st.c, st.n), j);
                        rec.j = j;
                        rec.r = "ok".into();
                    }
                    Err(e) => rec.r = innermost(&e),
                }
            }
            "DropResponseLoan" => {
                if self.rloans.remove(&(st.s, st.c, st.n, st.j)).is_none() {
                    return false;
                }
                rec.r = "ok".into();
            }
            "DropActive" => {
                if self.areq_has_loans((st.s, st.c, st.n)) {
                    return false;
                }
                if self.areq.remove(&(st.s, st.c, st.n)).is_none() {
                    return false;
                }
                rec.r = "ok".into();
            }
            "IsConnectedA" => {
                let Some(ar) = self.areq.get(&(st.s, st.c, st.n)) else { return false };
                rec.r = ar.is_connected().to_string();
            }
            "HasDisconnectHint" => {
                let Some(ar) = self.areq.get(&(st.s, st.c, st.n)) else { return false };
                rec.r = ar.has_disconnect_hint().to_string();
            }
            "ProbeResponseLoans" => {
                let Some(ar) = self.areq.get(&(st.s, st.c, st.n)) else { return false };
                let mut got = Vec::new();
                let err;
                loop {
                    match ar.loan_uninit() {
                        Ok(r) => got.push(r.write_payload(Msg::default())),
                        Err(e) => {
                            err = innermost(&e);
                            break;
                        }
                    }
                    if got.len() > 64 {
                        err = "unbounded".to_string();
                        break;
                    }
                }
                rec.v = got.len() as u64;
                rec.r = err;
            }
            _ => return false,
        }
        true
    }

    fn clear_objects(&mut self) {
        self.rloans.clear();
        self.areq.clear();
    }
}

// =================================================================================================
// one step on one side (shared by the sequential runs and the threads of a concurrent execution)

macro_rules! side_exec {
    ($side:ty) => {
        impl<S: Service> $side {
            /// Executes one step on this side.  None: the step does not apply (the object does not exist).
            /// `on_call` is invoked after the selector was resolved, immediately before the real call.
            pub fn exec_step(&mut self, svc: Option<&Factory<S>>, st: &Step, on_call: &mut dyn FnMut(&Rec)) -> Option<Rec> {
                let mut st = st.clone();
                if self.poisoned || !self.resolve(&mut st) {
                    return None;
                }
                let mut rec = Rec::of(&st);
                on_call(&rec);
                match catch_unwind(AssertUnwindSafe(|| self.exec_inner(svc, &st, &mut rec))) {
                    Ok(true) => {}
                    Ok(false) => return None,
                    Err(p) => {
                        rec.r = "PANIC".into();
                        rec.ok = 0;
                        eprintln!("panic in step {st:?}: {}", panic_msg(p));
                        self.poisoned = true;
                    }
                }
                Some(rec)
            }
            pub fn bad_or_99(&self) -> u64 {
                if self.poisoned { 0 } else { catch_unwind(AssertUnwindSafe(|| self.count_bad())).unwrap_or(99) }
            }
            pub fn count(&mut self, rec: &Rec) {
                *self.counts.entry(format!("{}:{}", rec.a, rec.r)).or_insert(0) += 1;
            }
        }
    };
}
side_exec!(ClientSide<S>);
side_exec!(ServerSide<S>);

impl<S: Service> World<S> {
    pub fn new(cfg: &Cfg, config: &Config, service_name: &str) -> Result<World<S>, String> {
        Self::new_opt(cfg, config, service_name, true)
    }

    /// probe = false: the chunk counts are not read (a client and a server less to create; the caller knows them)
    pub fn new_opt(cfg: &Cfg, config: &Config, service_name: &str, probe: bool) -> Result<World<S>, String> {
        let node = NodeBuilder::new().config(config).create::<S>().map_err(|e| format!("node: {e:?}"))?;
        let name = ServiceName::new(service_name).map_err(|e| format!("name: {e:?}"))?;
        let svc = node
            .service_builder(&name)
            .request_response::<Msg, Msg>()
            .max_active_requests_per_client(cfg.ma as usize)
            .max_loaned_requests(cfg.ml as usize)
            .max_response_buffer_size(cfg.rb as usize)
            .max_borrowed_responses_per_pending_response(cfg.mb as usize)
            .enable_safe_overflow_for_requests(cfg.oq)
            .enable_safe_overflow_for_responses(cfg.op)
            .enable_fire_and_forget_requests(cfg.ff)
            .max_servers(cfg.msv as usize)
            .max_clients(cfg.mcl as usize)
            .max_nodes(2)
            .create()
            .map_err(|e| format!("service: {e:?}"))?;
        let mut w = World {
            cfg: cfg.clone(),
            _node: node,
            svc,
            cs: ClientSide::new(cfg),
            ss: ServerSide::new(cfg),
            nreq: 0,
            nresp: 0,
        };
        // parameter extraction (DESIGN.md 3.3): number of chunks of a client / server data segment as
        // published by the running code in the dynamic config
        if probe {
            let c = make_client(&w.svc).map_err(|e| format!("probe client: {e}"))?;
            let s = make_server(&w.svc, cfg).map_err(|e| format!("probe server: {e}"))?;
            let (cid, sid) = (c.id(), s.id());
            let (mut nreq, mut nresp) = (0u64, 0u64);
            w.svc.dynamic_config().list_clients(|d| {
                if d.client_id == cid {
                    nreq = d.number_of_requests as u64;
                }
                CallbackProgression::Continue
            });
            w.svc.dynamic_config().list_servers(|d| {
                if d.server_id == sid {
                    nresp = d.number_of_responses as u64;
                }
                CallbackProgression::Continue
            });
            w.nreq = nreq;
            w.nresp = nresp;
        }
        Ok(w)
    }

    pub fn poisoned(&self) -> bool {
        self.cs.poisoned || self.ss.poisoned
    }

    // ---- liveness queries used by the generator -------------------------------------------------
    pub fn live_clients(&self) -> Vec<u64> {
        self.cs.clients.keys().copied().collect()
    }
    pub fn live_servers(&self) -> Vec<u64> {
        self.ss.servers.keys().copied().collect()
    }
    pub fn free_client_slots(&self) -> Vec<u64> {
        (1..=self.cfg.nc).filter(|c| !self.cs.used_c.contains_key(c)).collect()
    }
    pub fn free_server_slots(&self) -> Vec<u64> {
        (1..=self.cfg.ns).filter(|s| !self.ss.used_s.contains_key(s)).collect()
    }
    pub fn reqloan_keys(&self) -> Vec<(u64, u64)> {
        self.cs.reqloans.keys().copied().collect()
    }
    pub fn pend_keys(&self) -> Vec<(u64, u64)> {
        self.cs.pend.keys().copied().collect()
    }
    pub fn held_keys(&self) -> Vec<(u64, u64)> {
        self.cs.held.iter().map(|(h, r)| (*h, r.c)).collect()
    }
    pub fn areq_keys(&self) -> Vec<(u64, u64, u64)> {
        self.ss.areq.keys().copied().collect()
    }
    pub fn rloan_keys(&self) -> Vec<(u64, u64, u64, u64)> {
        self.ss.rloans.keys().copied().collect()
    }
    pub fn client_is_idle(&self, c: u64) -> bool {
        self.cs.is_idle(c)
    }
    pub fn server_is_idle(&self, s: u64) -> bool {
        self.ss.is_idle(s)
    }
    pub fn areq_has_loans(&self, k: (u64, u64, u64)) -> bool {
        self.ss.areq_has_loans(k)
    }

    // ---- execution ------------------------------------------------------------------------------
    /// Executes one step; returns the record (a = "Skip" if the step refers to objects that do not exist).
    pub fn exec(&mut self, st: &Step) -> Rec {
        if self.poisoned() {
            let mut rec = Rec::of(st);
            rec.r = "skipped-after-panic".into();
            rec.a = "Skip".into();
            return rec;
        }
        let r = match side_of(&st.a) {
            Side::Client => self.cs.exec_step(Some(&self.svc), st, &mut |_| {}),
            Side::Server => self.ss.exec_step(Some(&self.svc), st, &mut |_| {}),
            Side::None => None,
        };
        let mut rec = match r {
            Some(rec) => rec,
            None => {
                let mut rec = Rec::of(st);
                rec.a = "Skip".into();
                rec.r = format!("not-applicable:{}", st.a);
                rec
            }
        };
        if !self.poisoned() {
            rec.bad = self.cs.bad_or_99() + self.ss.bad_or_99();
        }
        self.cs.count(&rec);
        rec
    }

    pub fn counts(&self) -> BTreeMap<String, u64> {
        let mut m = self.cs.counts.clone();
        for (k, v) in &self.ss.counts {
            *m.entry(k.clone()).or_insert(0) += v;
        }
        m
    }

    /// Drops every object of both sides in dependency order but keeps node and service: the next execution starts
    /// with fresh ports on the same service.  false: the teardown panicked.
    pub fn recycle(&mut self) -> bool {
        let cs = std::mem::replace(&mut self.cs, ClientSide::new(&self.cfg));
        let ss = std::mem::replace(&mut self.ss, ServerSide::new(&self.cfg));
        if cs.poisoned || ss.poisoned {
            std::mem::forget(cs);
            std::mem::forget(ss);
            return false;
        }
        catch_unwind(AssertUnwindSafe(move || {
            let (mut cs, mut ss) = (cs, ss);
            ss.clear_objects();
            cs.clear();
            ss.servers.clear();
            drop(cs);
            drop(ss);
        }))
        .is_ok()
    }

    /// Orderly teardown in dependency order (the end-of-run observation is the leftover scan in main).
    pub fn teardown(mut self) -> bool {
        if self.poisoned() {
            // objects may be inconsistent after a panic inside the library: leak them
            std::mem::forget(self);
            return false;
        }
        catch_unwind(AssertUnwindSafe(move || {
            self.ss.clear_objects();
            self.cs.clear();
            self.ss.servers.clear();
            drop(self);
        }))
        .is_ok()
    }
}
