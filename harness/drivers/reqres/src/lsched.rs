//! Local variant of the deterministic scheduler of vlib (same semantics, same strategies): real OS threads, exactly one
//! runs at a time, a thread stops at every yield point (instrumented atomic access accepted by the site filter, start
//! of an API call).  Difference to `vlib::sched::run`: the scheduling decision is taken INLINE by the thread that
//! reaches the yield point, so continuing the same thread costs no context switch (vlib: two per yield point through
//! the controller thread; on a loaded machine that is several milliseconds each).  Only what drv-reqres needs: no
//! blocking conditions, no recording of atomic accesses.

use iceoryx2_pal_concurrency_sync::verif_hook::{self, Site};
use std::cell::RefCell;
use std::panic::{AssertUnwindSafe, catch_unwind};
use std::sync::{Arc, Condvar, Mutex};
use vlib::Value;
use vlib::sched::{Choice, Pending, Strategy};

pub type SiteFilter = fn(&Site) -> bool;
pub type Body = Box<dyn FnOnce() + Send + 'static>;

#[derive(Clone, Copy, PartialEq, Eq)]
enum Stat {
    Running,
    AtYield,
    Finished,
}

struct StratPtr(*mut dyn Strategy);
unsafe impl Send for StratPtr {}

struct St {
    stat: Vec<Stat>,
    granted: Option<usize>,
    current: Option<usize>,
    schedule: Vec<usize>,
    log: Vec<(usize, Value)>,
    panics: Vec<(usize, String)>,
    abort: bool,
    strat: StratPtr,
}

struct Inner {
    m: Mutex<St>,
    cv: Condvar,
    filter: SiteFilter,
    max_steps: usize,
}

thread_local! {
    static CTX: RefCell<Option<(usize, Arc<Inner>)>> = const { RefCell::new(None) };
}

fn ctx() -> Option<(usize, Arc<Inner>)> {
    CTX.try_with(|c| c.try_borrow().ok().and_then(|b| b.clone())).ok().flatten()
}

impl Inner {
    /// called with the lock held by a thread that just stopped running: if nobody runs, choose who continues
    fn decide(&self, st: &mut St) {
        if st.abort || st.granted.is_some() || st.stat.iter().any(|s| *s == Stat::Running) {
            return;
        }
        let enabled: Vec<usize> = (0..st.stat.len()).filter(|t| st.stat[*t] == Stat::AtYield).collect();
        if enabled.is_empty() {
            return;
        }
        if st.schedule.len() >= self.max_steps {
            st.abort = true;
            self.cv.notify_all();
            return;
        }
        let pending: Vec<Option<Pending>> =
            st.stat.iter().map(|s| if *s == Stat::AtYield { Some(Pending::Api(String::new())) } else { None }).collect();
        let tid = unsafe { &mut *st.strat.0 }.choose(&Choice { step: st.schedule.len(), current: st.current, enabled: &enabled, pending: &pending });
        assert!(enabled.contains(&tid), "strategy chose a thread that is not enabled");
        st.schedule.push(tid);
        st.current = Some(tid);
        st.granted = Some(tid);
        self.cv.notify_all();
    }

    fn do_yield(&self, tid: usize) {
        let mut st = self.m.lock().unwrap();
        if st.abort {
            return;
        }
        st.stat[tid] = Stat::AtYield;
        self.decide(&mut st);
        loop {
            if st.abort {
                st.stat[tid] = Stat::Running;
                return;
            }
            if st.granted == Some(tid) {
                st.granted = None;
                st.stat[tid] = Stat::Running;
                return;
            }
            st = self.cv.wait(st).unwrap();
        }
    }
}

fn pre_hook(s: &Site) {
    if let Some((tid, inner)) = ctx() {
        if (inner.filter)(s) {
            inner.do_yield(tid);
        }
    }
}

/// Emits an API-level event into the totally ordered log of the running execution.
pub fn log_api(ev: Value) {
    if let Some((tid, inner)) = ctx() {
        inner.m.lock().unwrap().log.push((tid, ev));
    }
}

/// An explicit yield point (API call boundaries).
pub fn yield_api() {
    if let Some((tid, inner)) = ctx() {
        inner.do_yield(tid);
    }
}

pub struct RunResult {
    /// (thread, event) in the total order of the execution
    pub log: Vec<(usize, Value)>,
    pub schedule: Vec<usize>,
    pub completed: bool,
    pub panics: Vec<(usize, String)>,
}

pub fn run(filter: SiteFilter, max_steps: usize, bodies: Vec<Body>, strat: &mut dyn Strategy) -> RunResult {
    verif_hook::install(Some(pre_hook), None);
    let n = bodies.len();
    // the strategy outlives the threads: they are joined before this function returns
    let strat_ptr: *mut (dyn Strategy + '_) = strat;
    let strat_ptr: *mut (dyn Strategy + 'static) = unsafe { core::mem::transmute(strat_ptr) };
    let inner = Arc::new(Inner {
        m: Mutex::new(St {
            stat: vec![Stat::Running; n],
            granted: None,
            current: None,
            schedule: vec![],
            log: vec![],
            panics: vec![],
            abort: false,
            strat: StratPtr(strat_ptr),
        }),
        cv: Condvar::new(),
        filter,
        max_steps,
    });
    let mut handles = vec![];
    for (tid, body) in bodies.into_iter().enumerate() {
        let inner2 = inner.clone();
        handles.push(
            std::thread::Builder::new()
                .name(format!("worker-{tid}"))
                .spawn(move || {
                    CTX.with(|c| *c.borrow_mut() = Some((tid, inner2.clone())));
                    inner2.do_yield(tid);
                    let r = catch_unwind(AssertUnwindSafe(body));
                    CTX.with(|c| *c.borrow_mut() = None);
                    let mut st = inner2.m.lock().unwrap();
                    if let Err(e) = r {
                        let msg = if let Some(s) = e.downcast_ref::<String>() {
                            s.clone()
                        } else if let Some(s) = e.downcast_ref::<&str>() {
                            s.to_string()
                        } else {
                            "panic".to_string()
                        };
                        st.panics.push((tid, msg));
                    }
                    st.stat[tid] = Stat::Finished;
                    inner2.decide(&mut st);
                })
                .expect("spawn"),
        );
    }
    for h in handles {
        let _ = h.join();
    }
    verif_hook::install(None, None);
    let mut st = inner.m.lock().unwrap();
    RunResult {
        log: std::mem::take(&mut st.log),
        schedule: std::mem::take(&mut st.schedule),
        completed: !st.abort,
        panics: std::mem::take(&mut st.panics),
    }
}
