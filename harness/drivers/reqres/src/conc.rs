//! Concurrent executions (C11): ONE client thread || ONE server thread on the real ports, serialised by the
//! deterministic scheduler of vlib.  Yield points: every instrumented atomic access of the zero-copy
//! connection (channel states, submission / completion queues, used-chunk lists) - i.e. the memory the two
//! ports share - and the start of every API call.
//!
//!   drv-reqres conc --progs P.ndjson --work DIR --out T.ndjson
//!       every line of P: {"name":..,"cfg":{..},"pre":[steps],"t0":[client steps],"t1":[server steps],"post":[steps],
//!                         "mode":"dfs"|"random","bound":B,"runs":N,"switch":PCT}
//!       steps of t0 / t1 may use selectors ("sel": 1 first / 2 last object of the kind the action needs)
//!
//! Trace of one execution: reset, `op` records of the sequential prefix, `call` / `ret` records of the
//! concurrent part in the total order of the scheduler (call.d = distance to the matching ret), `op` records
//! of the sequential suffix, end (with the schedule).  The same program is executed once per schedule
//! (depth-first enumeration with a preemption bound, or seeded random walks) on a fresh service.

use crate::Runner;
use crate::world::{Cfg, ClientSide, ServerSide, Step, World};
use iceoryx2::prelude::*;
use std::collections::BTreeMap;
use vlib::rng::Rng;
use crate::lsched;
use iceoryx2_pal_concurrency_sync::verif_hook::Site;
use vlib::sched::{Dfs, RandomWalk, Strategy};
use vlib::{Value, json};

pub struct ConcProg {
    pub name: String,
    pub cfg: Cfg,
    pub pre: Vec<Step>,
    pub t: [Vec<Step>; 2],
    pub post: Vec<Step>,
    pub mode: String,
    pub bound: usize,
    pub runs: u64,
    pub switch: u64,
    /// chunk counts of the configuration as read from the running code by `params` (0: read them again)
    pub nreq: u64,
    pub nresp: u64,
    /// mode "replay": the schedule of a recorded execution ("0x12,1x40,0x7": thread x number of steps)
    pub sched: String,
}

impl ConcProg {
    pub fn from_json(v: &Value) -> ConcProg {
        let steps = |k: &str| -> Vec<Step> { v[k].as_array().map(|a| a.iter().map(Step::from_json).collect()).unwrap_or_default() };
        ConcProg {
            name: v["name"].as_str().unwrap_or("").to_string(),
            cfg: Cfg::from_json(&v["cfg"]),
            pre: steps("pre"),
            t: [steps("t0"), steps("t1")],
            post: steps("post"),
            mode: v["mode"].as_str().unwrap_or("dfs").to_string(),
            bound: v["bound"].as_u64().unwrap_or(1) as usize,
            runs: v["runs"].as_u64().unwrap_or(400),
            switch: v["switch"].as_u64().unwrap_or(25),
            nreq: v["nreq"].as_u64().unwrap_or(0),
            nresp: v["nresp"].as_u64().unwrap_or(0),
            sched: v["sched"].as_str().unwrap_or("").to_string(),
        }
    }
}

#[derive(Default)]
pub struct ConcStats {
    pub executions: u64,
    pub overlapped: u64,
    pub exhausted: u64,
    pub truncated: u64,
    pub anomalies: u64,
    pub max_steps: u64,
    pub pairs: BTreeMap<String, u64>,
}

impl ConcStats {
    pub fn to_json(&self) -> Value {
        let pairs: serde_json::Map<String, Value> = self.pairs.iter().map(|(k, v)| (k.clone(), json!(v))).collect();
        json!({"executions": self.executions, "overlapped": self.overlapped, "exhausted": self.exhausted,
               "truncated": self.truncated, "anomalies": self.anomalies, "max_steps": self.max_steps, "pairs": pairs})
    }
}

/// The execution is serialised by the scheduler; every side is used by one thread at a time, and by the main
/// thread only before / after the scheduled part.
struct SendPtr<T>(*mut T);
unsafe impl<T> Send for SendPtr<T> {}
impl<T> SendPtr<T> {
    #[allow(clippy::mut_from_ref)]
    unsafe fn get(&self) -> &mut T {
        unsafe { &mut *self.0 }
    }
}

/// yield points: the atomics of the memory the two ports share (channel states, submission / completion queues,
/// used-chunk lists of the zero-copy connections)
fn filter(s: &Site) -> bool {
    let f = s.file;
    f.contains("zero_copy_connection/") || f.contains("lock-free/src/spsc/")
}

fn unrle(s: &str) -> Vec<usize> {
    let mut out = vec![];
    for part in s.split(',') {
        if let Some((t, n)) = part.split_once('x') {
            if let (Ok(t), Ok(n)) = (t.trim().parse::<usize>(), n.trim().parse::<usize>()) {
                out.extend(std::iter::repeat_n(t, n));
            }
        }
    }
    out
}

fn rle(s: &[usize]) -> String {
    let mut out = String::new();
    let mut i = 0;
    while i < s.len() {
        let mut j = i;
        while j < s.len() && s[j] == s[i] {
            j += 1;
        }
        if !out.is_empty() {
            out.push(',');
        }
        out.push_str(&format!("{}x{}", s[i], j - i));
        i = j;
    }
    out
}

macro_rules! thread_body {
    ($ptr:ident, $steps:ident, $tid:expr) => {
        Box::new(move || {
            let side = unsafe { $ptr.get() };
            for st in $steps {
                lsched::yield_api();
                let mut called = false;
                let r = side.exec_step(None, &st, &mut |rec| {
                    called = true;
                    lsched::log_api(rec.to_json_kind("call", $tid));
                });
                match r {
                    Some(mut rec) => {
                        rec.bad = side.bad_or_99();
                        rec.x = 0;
                        side.count(&rec);
                        lsched::log_api(rec.to_json_kind("ret", $tid));
                    }
                    None => {
                        if called {
                            // the object the step names does not exist (any more): nothing was called
                            let mut rec = crate::world::Rec::of(&st);
                            rec.a = "Skip".into();
                            rec.r = format!("not-applicable:{}", st.a);
                            lsched::log_api(rec.to_json_kind("ret", $tid));
                        }
                    }
                }
            }
        }) as lsched::Body
    };
}

impl Runner {
    fn new_world<S: Service + 'static>(&mut self, p: &ConcProg) -> World<S> {
        let (config, prefix) = self.config_for(&p.cfg);
        let probe = p.nreq == 0 || p.nresp == 0;
        static WORLDS: std::sync::atomic::AtomicU64 = std::sync::atomic::AtomicU64::new(0);
        let k = WORLDS.fetch_add(1, std::sync::atomic::Ordering::Relaxed);
        match World::<S>::new_opt(&p.cfg, &config, &format!("verif/reqres/{prefix}w{k}"), probe) {
            Ok(mut w) => {
                if !probe {
                    w.nreq = p.nreq;
                    w.nresp = p.nresp;
                }
                w
            }
            Err(e) => {
                eprintln!("cannot set up world: {e}");
                std::process::exit(3);
            }
        }
    }

    /// one execution of the program under the given strategy, on fresh ports of the (reused) service of w
    fn conc_once<S: Service + 'static>(&mut self, w: &mut World<S>, p: &ConcProg, strat: &mut dyn Strategy, stats: &mut ConcStats) {
        self.run += 1;
        let mut rr = self.reset_record(w);
        rr["conc"] = json!(1);
        rr["prog"] = json!(p.name);
        self.out.emit(&rr);
        self.events += 1;
        // chunk identities are not recorded in concurrent runs (x = 0, ReqResConcTrace.tla)
        for st in &p.pre {
            let mut rec = w.exec(st);
            rec.x = 0;
            if rec.a != "Skip" {
                self.emit(&rec);
            }
        }
        let pc = SendPtr(&mut w.cs as *mut ClientSide<S>);
        let ps = SendPtr(&mut w.ss as *mut ServerSide<S>);
        let (t0, t1) = (p.t[0].clone(), p.t[1].clone());
        let bodies: Vec<lsched::Body> = vec![thread_body!(pc, t0, 0), thread_body!(ps, t1, 1)];
        w.ss.conn_in_receive = false;
        let res = lsched::run(filter, 100_000, bodies, strat);
        w.ss.conn_in_receive = true;
        // the call / ret records in the total order of the scheduler
        let mut evs: Vec<(usize, Value)> = res.log.clone();
        let n = evs.len();
        let mut overlapped = false;
        for i in 0..n {
            if evs[i].1["k"] != "call" {
                continue;
            }
            let t = evs[i].0;
            match (i + 1..n).find(|j| evs[*j].0 == t && evs[*j].1["k"] == "ret") {
                Some(j) => {
                    evs[i].1["d"] = json!(j - i);
                    for m in i + 1..j {
                        if evs[m].0 != t && evs[m].1["k"] == "call" {
                            overlapped = true;
                            let key = if t == 0 {
                                format!("{}||{}", evs[i].1["a"].as_str().unwrap_or(""), evs[m].1["a"].as_str().unwrap_or(""))
                            } else {
                                format!("{}||{}", evs[m].1["a"].as_str().unwrap_or(""), evs[i].1["a"].as_str().unwrap_or(""))
                            };
                            *stats.pairs.entry(key).or_insert(0) += 1;
                        }
                    }
                }
                None => {
                    // the call never returned (abort of the execution): a synthetic return that nothing explains
                    let mut r = evs[i].1.clone();
                    r["k"] = json!("ret");
                    r["r"] = json!("NO-RETURN");
                    evs[i].1["d"] = json!(n - i);
                    evs.push((t, r));
                }
            }
        }
        for (_, e) in &evs {
            self.out.emit(e);
            self.events += 1;
        }
        let completed = res.completed && res.panics.is_empty();
        stats.executions += 1;
        if overlapped {
            stats.overlapped += 1;
        }
        if !completed {
            stats.anomalies += 1;
            eprintln!("anomaly in {}: completed={} {:?}", p.name, res.completed, res.panics);
        }
        stats.max_steps = stats.max_steps.max(res.schedule.len() as u64);
        if completed {
            for st in &p.post {
                let mut rec = w.exec(st);
                rec.x = 0;
                if rec.a != "Skip" {
                    self.emit(&rec);
                }
            }
        } else {
            w.cs.poisoned = true;
        }
        // end of run: everything but node and service is dropped
        for (k, v) in &w.counts() {
            *self.counts.entry(k.clone()).or_insert(0) += v;
        }
        let poisoned = w.poisoned();
        if poisoned {
            self.panics += 1;
        }
        let ok = w.recycle();
        if !ok && !poisoned {
            self.teardown_failures += 1;
        }
        if !ok {
            // leaked / half destroyed ports stay registered in the service: continue on a new one
            let old = std::mem::replace(w, self.new_world::<S>(p));
            std::mem::forget(old);
        }
        self.out.emit(&json!({"k": "end", "run": self.run,
            "teardown": if ok { "ok" } else if poisoned { "leaked-after-panic" } else { "PANIC" },
            "outcome": if completed { "completed" } else { "aborted" }, "steps": res.schedule.len(), "sched": rle(&res.schedule)}));
        self.events += 1;
    }

    pub fn run_conc<S: Service + 'static>(&mut self, p: &ConcProg, rng: &mut Rng, stats: &mut ConcStats) {
        let mut w = self.new_world::<S>(p);
        let w = &mut w;
        match p.mode.as_str() {
            "dfs" => {
                let mut dfs = Dfs::new(p.bound);
                loop {
                    if !dfs.next_run() {
                        stats.exhausted += 1;
                        break;
                    }
                    self.conc_once::<S>(w, p, &mut dfs, stats);
                    if dfs.runs >= p.runs {
                        stats.truncated += 1;
                        break;
                    }
                }
            }
            "random" => {
                for _ in 0..p.runs {
                    let mut s = RandomWalk { rng: Rng::new(rng.next()), switch_percent: p.switch };
                    self.conc_once::<S>(w, p, &mut s, stats);
                }
            }
            "replay" => {
                let mut s = vlib::sched::Replay::new(unrle(&p.sched));
                self.conc_once::<S>(w, p, &mut s, stats);
                if s.deviations > 0 {
                    eprintln!("replay deviated from the recorded schedule {} times", s.deviations);
                }
            }
            m => {
                eprintln!("unknown mode {m}");
                std::process::exit(2);
            }
        }
    }
}
