//! Conformance driver for the request-response API (C11, request-response parts of C08 and C02).
//!
//!   drv-reqres exec --progs P.ndjson --work DIR --out T.ndjson
//!       every line of P is {"cfg":{..},"steps":[{"a":..,"c":..,"s":..,"n":..,"j":..,"h":..},..]}
//!   drv-reqres conc --progs P.ndjson --work DIR --out T.ndjson      concurrent executions, see conc.rs
//!   drv-reqres params --cfgs C.ndjson --work DIR      prints the chunk counts the code uses per cfg
//!   drv-reqres gen --cfgs C.ndjson --runs N --len L --work DIR --out T.ndjson [--progs-out P.ndjson]
//!       [--avoid-dead-client-send] [--api 0|1|2] [--churn PCT] [--probes]
//!       seeded (VERIF_SEED) generator that knows the live objects; cfgs are used round-robin
//!
//! Trace: per run `reset` (configuration + chunk counts read from the running code), `op` records,
//! `end` (teardown result). The last stdout line is a JSON summary.

extern crate iceoryx2_bb_loggers;

mod conc;
mod lsched;
mod r#gen;
mod world;

use iceoryx2::prelude::*;
use std::collections::BTreeMap;
use vlib::rng::Rng;
use vlib::trace::TraceWriter;
use vlib::{Args, Value, json};
use world::{Cfg, Rec, Step, World};

struct Runner {
    work: String,
    out: TraceWriter,
    run: u64,
    counts: BTreeMap<String, u64>,
    panics: u64,
    events: u64,
    teardown_failures: u64,
}

impl Runner {
    fn config_for(&self, cfg: &Cfg) -> (Config, String) {
        let (mut config, prefix) = self.config();
        if cfg.xb > 0 {
            config.defaults.request_response.client_expired_connection_buffer = cfg.xb as usize;
            config.defaults.request_response.server_expired_connection_buffer = cfg.xb as usize;
        }
        (config, prefix)
    }

    fn config(&self) -> (Config, String) {
        let mut config = Config::default();
        let root = format!("{}/iox", self.work);
        std::fs::create_dir_all(&root).expect("work dir");
        config.global.set_root_path(&Path::new(root.as_bytes()).expect("root path"));
        let prefix = format!("rr{}x{}_", std::process::id(), self.run);
        config.global.prefix = FileName::new(prefix.as_bytes()).expect("prefix");
        (config, prefix)
    }

    fn reset_record<S: Service>(&self, w: &World<S>) -> Value {
        let c = &w.cfg;
        json!({"k": "reset", "run": self.run, "svc": c.svc, "nc": c.nc, "ns": c.ns, "ma": c.ma, "ml": c.ml,
               "rb": c.rb, "mb": c.mb, "mlr": c.mlr, "oq": c.oq, "op": c.op, "ff": c.ff, "msv": c.msv,
               "mcl": c.mcl, "xb": c.xb, "nreq": w.nreq, "nresp": w.nresp})
    }

    fn finish_run<S: Service>(&mut self, w: World<S>) {
        for (k, v) in &w.counts() {
            *self.counts.entry(k.clone()).or_insert(0) += v;
        }
        let poisoned = w.poisoned();
        if poisoned {
            self.panics += 1;
        }
        let ok = w.teardown();
        if !ok && !poisoned {
            self.teardown_failures += 1;
        }
        self.out.emit(&json!({"k": "end", "run": self.run, "teardown": if ok { "ok" } else if poisoned { "leaked-after-panic" } else { "PANIC" }}));
        self.events += 1;
    }

    fn emit(&mut self, r: &Rec) {
        self.out.emit(&r.to_json());
        self.events += 1;
    }

    fn run_program<S: Service>(&mut self, cfg: &Cfg, steps: &[Step]) {
        self.run += 1;
        let (config, prefix) = self.config_for(cfg);
        let mut w = match World::<S>::new(cfg, &config, &format!("verif/reqres/{prefix}")) {
            Ok(w) => w,
            Err(e) => {
                eprintln!("cannot set up world: {e}");
                std::process::exit(3);
            }
        };
        let rr = self.reset_record(&w);
        self.out.emit(&rr);
        self.events += 1;
        for st in steps {
            let rec = w.exec(st);
            self.emit(&rec);
        }
        self.finish_run(w);
    }

    fn run_generated<S: Service>(&mut self, cfg: &Cfg, len: u64, rng: &mut Rng, o: &r#gen::GenOpts) -> Vec<Step> {
        self.run += 1;
        let (config, prefix) = self.config_for(cfg);
        let mut w = match World::<S>::new(cfg, &config, &format!("verif/reqres/{prefix}")) {
            Ok(w) => w,
            Err(e) => {
                eprintln!("cannot set up world: {e}");
                std::process::exit(3);
            }
        };
        let rr = self.reset_record(&w);
        self.out.emit(&rr);
        self.events += 1;
        let mut steps = Vec::new();
        for _ in 0..len {
            let st = r#gen::next_step(&w, rng, o);
            let rec = w.exec(&st);
            self.emit(&rec);
            steps.push(st);
            if w.poisoned() {
                break;
            }
        }
        self.finish_run(w);
        steps
    }
}

fn leftovers(work: &str) -> u64 {
    // shared memory objects of this process' domains that survived the orderly teardown
    let tag = format!("rr{}x", std::process::id());
    let mut n = 0;
    for dir in ["/dev/shm".to_string(), format!("{work}/iox")] {
        let mut stack = vec![std::path::PathBuf::from(dir)];
        while let Some(d) = stack.pop() {
            if let Ok(rd) = std::fs::read_dir(&d) {
                for e in rd.flatten() {
                    let p = e.path();
                    if p.is_dir() {
                        stack.push(p);
                    } else if p.file_name().map(|f| f.to_string_lossy().starts_with(&tag)).unwrap_or(false) {
                        n += 1;
                        if std::env::var("VERIF_SHOW_LEFTOVERS").is_ok() {
                            eprintln!("leftover: {}", p.display());
                        }
                        let _ = std::fs::remove_file(&p);
                    }
                }
            }
        }
    }
    n
}

fn main() {
    set_log_level(LogLevel::Fatal);
    std::panic::set_hook(Box::new(|_| {}));
    let args = Args::from_env();
    let work = args.get_or("work", "/verif/work/reqres-manual");
    let out = args.get_or("out", &format!("{work}/trace.ndjson"));
    let mut r = Runner {
        work: work.clone(),
        out: TraceWriter::create(&out),
        run: 0,
        counts: BTreeMap::new(),
        panics: 0,
        events: 0,
        teardown_failures: 0,
    };
    match args.positional(0).as_deref() {
        Some("exec") => {
            let progs = vlib::trace::read_ndjson(&args.get("progs").expect("--progs"));
            for p in progs {
                let cfg = Cfg::from_json(&p["cfg"]);
                let steps: Vec<Step> = p["steps"].as_array().map(|a| a.iter().map(Step::from_json).collect()).unwrap_or_default();
                if cfg.svc == "local" {
                    r.run_program::<local::Service>(&cfg, &steps);
                } else {
                    r.run_program::<ipc::Service>(&cfg, &steps);
                }
            }
        }
        Some("conc") => {
            let progs = vlib::trace::read_ndjson(&args.get("progs").expect("--progs"));
            let mut rng = Rng::new(vlib::seed_from_env().wrapping_mul(0x2000_0003).wrapping_add(args.num("stream", 0)));
            let mut stats = conc::ConcStats::default();
            for p in progs {
                let p = conc::ConcProg::from_json(&p);
                if p.cfg.svc == "local" {
                    r.run_conc::<local::Service>(&p, &mut rng, &mut stats);
                } else {
                    r.run_conc::<ipc::Service>(&p, &mut rng, &mut stats);
                }
            }
            r.out.flush();
            let left = leftovers(&work);
            let counts: serde_json::Map<String, Value> = r.counts.iter().map(|(k, v)| (k.clone(), json!(v))).collect();
            println!(
                "{}",
                json!({"runs": r.run, "events": r.events, "panics": r.panics, "teardown_failures": r.teardown_failures,
                       "leftovers": left, "counts": counts, "conc": stats.to_json()})
            );
            return;
        }
        Some("params") => {
            // parameter extraction (DESIGN.md 3.3): chunk counts published by the running code
            let cfgs: Vec<Cfg> = vlib::trace::read_ndjson(&args.get("cfgs").expect("--cfgs")).iter().map(Cfg::from_json).collect();
            let mut outv = Vec::new();
            for cfg in &cfgs {
                r.run += 1;
                let (config, prefix) = r.config_for(cfg);
                let (nreq, nresp) = if cfg.svc == "local" {
                    let w = World::<local::Service>::new(cfg, &config, &format!("verif/reqres/{prefix}")).expect("world");
                    let v = (w.nreq, w.nresp);
                    w.teardown();
                    v
                } else {
                    let w = World::<ipc::Service>::new(cfg, &config, &format!("verif/reqres/{prefix}")).expect("world");
                    let v = (w.nreq, w.nresp);
                    w.teardown();
                    v
                };
                let mut j = cfg.to_json();
                j["nreq"] = json!(nreq);
                j["nresp"] = json!(nresp);
                outv.push(j);
            }
            r.out.flush();
            leftovers(&work);
            println!("{}", json!({"params": outv}));
            return;
        }
        Some("gen") => {
            let cfgs: Vec<Cfg> = vlib::trace::read_ndjson(&args.get("cfgs").expect("--cfgs")).iter().map(Cfg::from_json).collect();
            let runs = args.num("runs", 10);
            let len = args.num("len", 40);
            let o = r#gen::GenOpts {
                avoid_dead_client_send: args.flag("avoid-dead-client-send"),
                api: args.num("api", 0),
                churn: args.num("churn", 2),
                probes: args.flag("probes"),
            };
            let mut rng = Rng::new(vlib::seed_from_env().wrapping_mul(0x1000_0001).wrapping_add(args.num("stream", 0)));
            let mut pw = args.get("progs-out").map(|p| TraceWriter::create(&p));
            for i in 0..runs {
                let cfg = &cfgs[(i as usize) % cfgs.len()];
                let steps = if cfg.svc == "local" {
                    r.run_generated::<local::Service>(cfg, len, &mut rng, &o)
                } else {
                    r.run_generated::<ipc::Service>(cfg, len, &mut rng, &o)
                };
                if let Some(pw) = pw.as_mut() {
                    pw.emit(&json!({"cfg": cfg.to_json(), "steps": steps.iter().map(|s| s.to_json()).collect::<Vec<_>>()}));
                }
            }
        }
        other => {
            eprintln!("unknown sub-command {other:?}");
            std::process::exit(2);
        }
    }
    r.out.flush();
    let left = leftovers(&work);
    let counts: serde_json::Map<String, Value> = r.counts.iter().map(|(k, v)| (k.clone(), json!(v))).collect();
    println!(
        "{}",
        json!({"runs": r.run, "events": r.events, "panics": r.panics, "teardown_failures": r.teardown_failures,
               "leftovers": left, "counts": counts})
    );
}
