//! Conformance driver for C07 (process liveness protocol): small real programs that are run as
//! separate processes under harness/sysshim by checks/C07.py.
//!
//! Sub-commands (each reads one-word commands from stdin and answers with one JSON line):
//!   guard   --dir D --name N          create | drop | state | quit
//!   monitor --dir D --name N          state (ProcessMonitor) | mstate (monitoring::file_lock mapping) | quit
//!   cleaner --dir D --name N          acquire | macquire | drop | failat K ERRNO | quit
//!       `failat K ERRNO` arms the fault injection of harness/sysshim (iox2_verif_ctl): the K-th numbered call
//!       FROM NOW of this process is not performed and fails with ERRNO (0 = the default of the call); the answer
//!       of the next acquire / macquire carries the number of injected faults ("faults") and disarms it.
//!   node    --root R --prefix P       create | drop | quit            (real iceoryx2 node)
//!   nodes   --root R --prefix P       list | cleanup | quit           (Node::list / remove_stale_resources)
//! `quit` leaves the process with `exit(0)` WITHOUT running destructors.

extern crate iceoryx2_bb_loggers;

use iceoryx2::node::{NodeState, NodeView};
use iceoryx2::prelude::*;
use iceoryx2_bb_container::semantic_string::SemanticString;
use iceoryx2_bb_posix::process_state::{
    ProcessCleaner, ProcessGuard, ProcessGuardBuilder, ProcessMonitor,
};
use iceoryx2_bb_system_types::file_name::FileName;
use iceoryx2_bb_system_types::file_path::FilePath;
use iceoryx2_bb_system_types::path::Path;
use iceoryx2_cal::monitoring::file_lock::FileLockMonitoring;
use iceoryx2_cal::monitoring::{Monitoring, MonitoringBuilder, MonitoringMonitor};
use iceoryx2_cal::named_concept::{NamedConceptBuilder, NamedConceptConfiguration, NamedConceptMgmt};
use std::io::BufRead;
use vlib::json;

type MonCfg = <FileLockMonitoring as NamedConceptMgmt>::Configuration;
type MonBuilder = <FileLockMonitoring as Monitoring>::Builder;

fn say(v: vlib::Value) {
    println!("{v}");
}

fn mon_cfg(args: &vlib::Args) -> (MonCfg, FileName, FilePath) {
    let dir = args.get("dir").expect("--dir");
    let name = FileName::new(args.get_or("name", "1").as_bytes()).expect("name");
    let cfg = MonCfg::default()
        .prefix(&FileName::new(b"v_").unwrap())
        .suffix(&FileName::new(b".tok").unwrap())
        .path_hint(&Path::new(dir.as_bytes()).expect("dir"));
    let path = cfg.path_for(&name);
    (cfg, name, path)
}

fn iox_config(args: &vlib::Args) -> Config {
    let mut config = Config::default();
    config
        .global
        .set_root_path(&Path::new(args.get("root").expect("--root").as_bytes()).expect("root"));
    config.global.prefix = FileName::new(args.get("prefix").expect("--prefix").as_bytes()).expect("prefix");
    if args.flag("no-auto-cleanup") {
        config.global.node.cleanup_dead_nodes_on_creation = false;
        config.global.node.cleanup_dead_nodes_on_destruction = false;
    }
    config
}

fn commands() -> impl Iterator<Item = String> {
    std::io::stdin()
        .lock()
        .lines()
        .map(|l| l.expect("stdin").trim().to_string())
        .filter(|l| !l.is_empty())
}

fn quit() -> ! {
    say(json!({"ev": "quit"}));
    std::process::exit(0)
}

fn guard(args: &vlib::Args) {
    let (_, _, path) = mon_cfg(args);
    let mut guard: Option<ProcessGuard> = None;
    for c in commands() {
        match c.as_str() {
            "create" => match ProcessGuardBuilder::new().create(&path) {
                Ok(g) => {
                    guard = Some(g);
                    say(json!({"ev": "created", "v": "Ok"}));
                }
                Err(e) => say(json!({"ev": "created", "v": format!("{e:?}")})),
            },
            "drop" => {
                drop(guard.take());
                say(json!({"ev": "dropped"}));
            }
            "state" => {
                let r = ProcessMonitor::new(&path).expect("monitor").state();
                say(json!({"ev": "state", "v": match r { Ok(s) => format!("{s:?}"), Err(e) => format!("Err:{e:?}") }}));
            }
            "quit" => quit(),
            other => say(json!({"ev": "error", "v": other})),
        }
    }
    core::mem::forget(guard);
    quit()
}

fn monitor(args: &vlib::Args) {
    let (cfg, name, path) = mon_cfg(args);
    for c in commands() {
        match c.as_str() {
            "state" => {
                let r = ProcessMonitor::new(&path).expect("monitor").state();
                say(json!({"ev": "state", "v": match r { Ok(s) => format!("{s:?}"), Err(e) => format!("Err:{e:?}") }}));
            }
            "mstate" => {
                let m = MonBuilder::new(&name).config(&cfg).monitor().expect("monitor");
                let r = m.state();
                say(json!({"ev": "mstate", "v": match r { Ok(s) => format!("{s:?}"), Err(e) => format!("Err:{e:?}") }}));
            }
            "quit" => quit(),
            other => say(json!({"ev": "error", "v": other})),
        }
    }
    quit()
}

/// Run-time control of the shim's fault injection (None: the process does not run under the shim).
fn shim_ctl(op: i32, a: i64, b: i64) -> Option<i64> {
    type Ctl = unsafe extern "C" fn(i32, libc::c_long, libc::c_long) -> libc::c_long;
    let p = unsafe { libc::dlsym(libc::RTLD_DEFAULT, c"iox2_verif_ctl".as_ptr()) };
    if p.is_null() {
        return None;
    }
    let f = unsafe { core::mem::transmute::<*mut libc::c_void, Ctl>(p) };
    Some(unsafe { f(op, a as libc::c_long, b as libc::c_long) } as i64)
}

fn cleaner(args: &vlib::Args) {
    let (cfg, name, path) = mon_cfg(args);
    let mut held: Option<ProcessCleaner> = None;
    let mut mheld: Option<<FileLockMonitoring as Monitoring>::Cleaner> = None;
    for c in commands() {
        match c.as_str() {
            "acquire" => {
                let r = ProcessCleaner::new(&path);
                let faults = shim_ctl(3, 0, 0).unwrap_or(0);
                match r {
                    Ok(c) => {
                        held = Some(c);
                        say(json!({"ev": "cleaner", "v": "Ok", "faults": faults}));
                    }
                    Err(e) => say(json!({"ev": "cleaner", "v": format!("{e:?}"), "faults": faults})),
                }
            }
            "macquire" => {
                let r = MonBuilder::new(&name).config(&cfg).cleaner();
                let faults = shim_ctl(3, 0, 0).unwrap_or(0);
                match r {
                    Ok(c) => {
                        mheld = Some(c);
                        say(json!({"ev": "mcleaner", "v": "Ok", "faults": faults}));
                    }
                    Err(e) => say(json!({"ev": "mcleaner", "v": format!("{e:?}"), "faults": faults})),
                }
            }
            fa if fa.starts_with("failat ") => {
                let mut it = fa.split_whitespace().skip(1).map(|x| x.parse::<i64>().unwrap_or(0));
                let (k, errno) = (it.next().unwrap_or(0), it.next().unwrap_or(0));
                match shim_ctl(1, k, errno) {
                    Some(_) => say(json!({"ev": "armed", "v": "Ok"})),
                    None => say(json!({"ev": "armed", "v": "NoShim"})),
                }
            }
            "drop" => {
                drop(held.take());
                drop(mheld.take());
                say(json!({"ev": "cleaner_dropped"}));
            }
            "quit" => quit(),
            other => say(json!({"ev": "error", "v": other})),
        }
    }
    core::mem::forget(held);
    core::mem::forget(mheld);
    quit()
}

fn node(args: &vlib::Args) {
    let config = iox_config(args);
    let mut node: Option<Node<ipc::Service>> = None;
    for c in commands() {
        match c.as_str() {
            "create" => match NodeBuilder::new().config(&config).create::<ipc::Service>() {
                Ok(n) => {
                    say(json!({"ev": "node_created", "v": "Ok", "id": format!("{}", n.id().value())}));
                    node = Some(n);
                }
                Err(e) => say(json!({"ev": "node_created", "v": format!("{e:?}"), "id": ""})),
            },
            "drop" => {
                drop(node.take());
                say(json!({"ev": "node_dropped"}));
            }
            "quit" => quit(),
            other => say(json!({"ev": "error", "v": other})),
        }
    }
    core::mem::forget(node);
    quit()
}

fn nodes(args: &vlib::Args) {
    let config = iox_config(args);
    for c in commands() {
        match c.as_str() {
            "list" | "cleanup" => {
                let mut out = vec![];
                let r = Node::<ipc::Service>::list(&config, |state| {
                    let id = format!("{}", state.node_id().value());
                    match state {
                        NodeState::Alive(_) => out.push(json!({"id": id, "s": "Alive", "c": ""})),
                        NodeState::Dead(view) => {
                            let det = view.details().is_some();
                            let res = if c == "cleanup" {
                                format!("{:?}", view.try_remove_stale_resources())
                            } else {
                                String::new()
                            };
                            out.push(json!({"id": id, "s": "Dead", "c": res, "details": det}));
                        }
                        NodeState::Inaccessible(_) => out.push(json!({"id": id, "s": "Inaccessible", "c": ""})),
                        NodeState::Undefined(_) => out.push(json!({"id": id, "s": "Undefined", "c": ""})),
                    }
                    CallbackProgression::Continue
                });
                say(json!({"ev": c, "v": match r { Ok(()) => "Ok".to_string(), Err(e) => format!("{e:?}") }, "nodes": out}));
            }
            "quit" => quit(),
            other => say(json!({"ev": "error", "v": other})),
        }
    }
    quit()
}

fn main() {
    iceoryx2_log::set_log_level_from_env_or(iceoryx2_log::LogLevel::Fatal);
    let args = vlib::Args::from_env();
    match args.positional(0).as_deref() {
        Some("guard") => guard(&args),
        Some("monitor") => monitor(&args),
        Some("cleaner") => cleaner(&args),
        Some("node") => node(&args),
        Some("nodes") => nodes(&args),
        other => {
            eprintln!("unknown sub-command {other:?}");
            std::process::exit(2);
        }
    }
}
