//! (b) concurrent histories: 2-4 real threads, or child processes of this driver, create / open /
//! open_or_create / drop the SAME service name in a loop with seeded random yields.  Every call is
//! logged as `call` and `ret`, stamped from ONE SeqCst counter (shared memory) immediately before
//! the call and immediately after the return.

use crate::cfgs::cfg_set;
use crate::ops::{Actor, Op, SLOTS, do_op, observe, write_events};
use crate::pats::Pat;
use crate::util::{self, Shared};
use iceoryx2::config::Config;
use iceoryx2::prelude::*;
use vlib::rng::Rng;
use vlib::trace::TraceWriter;
use vlib::{Args, Value, json};

fn perturb(rng: &mut Rng, pace_us: u64) {
    if pace_us > 0 {
        std::thread::sleep(std::time::Duration::from_micros(rng.below(pace_us)));
    }
    match rng.below(10) {
        0..=2 => std::thread::yield_now(),
        3..=5 => {
            let n = rng.below(3000);
            for i in 0..n {
                core::hint::black_box(i);
            }
        }
        6 => std::thread::sleep(std::time::Duration::from_micros(rng.below(200))),
        _ => {}
    }
}

#[allow(clippy::too_many_arguments)]
fn worker<P: Pat>(
    sh: &Shared,
    t: usize,
    n: usize,
    seed: u64,
    iters: u64,
    pace_us: u64,
    role: u64,
    config: &Config,
    name: &ServiceName,
) -> Vec<(u64, Value)> {
    let set = cfg_set(P::NAME, false);
    let dflt = P::defaults(config);
    let mut rng = Rng::new(seed);
    let mut evs = Vec::with_capacity(iters as usize * 2 + 16);
    let mut actor: Actor<P> = Actor::new(config, t);
    sh.barrier(n as u64);
    for it in 0..iters {
        let held = actor.held_slots();
        let free = actor.free_slot();
        let roll = rng.below(100);
        let op = match role {
            // creator only (the slow-motion process): a fixed cycle create|open_or_create, exist, drop
            1 => match (free, held.is_empty()) {
                (Some(slot), true) if (it / 3) % 2 == 0 || !P::HAS_OOC => Op::Create { c: *rng.pick(&set.creators), slot },
                (Some(slot), true) => Op::Ooc { c: *rng.pick(&set.creators), slot },
                (_, false) if it % 3 == 2 => Op::Drop { slot: *rng.pick(&held) },
                _ => Op::Exist,
            },
            // opener only (the free-running peers of a slow-motion creator)
            2 => match (free, held.is_empty()) {
                (Some(slot), _) if roll < 50 => Op::Open { c: *rng.pick(&set.openers), slot },
                (_, false) if roll < 85 => Op::Drop { slot: *rng.pick(&held) },
                _ if roll < 95 => Op::Exist,
                _ => Op::List,
            },
            _ => match (free, held.is_empty()) {
                (Some(slot), _) if roll < 18 => Op::Create { c: *rng.pick(&set.creators), slot },
                (Some(slot), _) if roll < 42 => Op::Open { c: *rng.pick(&set.openers), slot },
                (Some(slot), _) if roll < 58 && P::HAS_OOC => Op::Ooc { c: *rng.pick(&set.creators), slot },
                (_, false) if roll < 93 => Op::Drop { slot: *rng.pick(&held) },
                _ if roll < 97 => Op::Exist,
                _ => Op::List,
            },
        };
        do_op::<P>(sh, &mut evs, t, &mut actor, &op, name, &set.cfgs, config, &dflt);
        perturb(&mut rng, pace_us);
    }
    for slot in 0..SLOTS {
        if actor.slots[slot].is_some() {
            do_op::<P>(sh, &mut evs, t, &mut actor, &Op::Drop { slot }, name, &set.cfgs, config, &dflt);
        }
    }
    evs
}

fn count_results(evs: &[(u64, Value)], counts: &mut std::collections::BTreeMap<String, u64>) {
    for (_, e) in evs {
        if e["k"] == "ret" {
            *counts
                .entry(format!("{}:{}", e["a"].as_str().unwrap(), e["r"].as_str().unwrap()))
                .or_default() += 1;
        }
    }
}

pub fn run<P: Pat>(args: &Args) -> Value {
    let root = args.get("root").expect("--root");
    let runs = args.num("runs", 4);
    let iters = args.num("iters", 200);
    // "--threads 2,3,4": run i uses the (i mod len)-th entry
    let tlist: Vec<usize> = args
        .get_or("threads", "3")
        .split(',')
        .map(|x| x.parse().expect("--threads"))
        .collect();
    let procs = args.flag("procs");
    let timeout = args.num("timeout", 20_000);
    let tag = util::run_token(args);
    let slow = args.num("slow", 0);
    let slow_us = args.num("slow-us", 1500);
    let slow_iters = args.num("slow-iters", iters / 20 + 1);
    let pace_us = args.num("pace-us", 2000);
    let seed = vlib::seed_from_env();
    let mut out = TraceWriter::create(&args.get("out").expect("--out"));
    let mode = if procs && args.num("slow", 0) > 0 { "slow" } else if procs { "procs" } else { "conc" };
    let shared_path = format!("{root}/{mode}-{}-{tag}.shared", P::NAME);
    let sh = Shared::open(&shared_path, true);
    let name: ServiceName = "c06/svc".try_into().unwrap();
    let mut counts = std::collections::BTreeMap::<String, u64>::new();
    let mut calls = 0u64;
    let mut panics_total = 0u64;
    let mut seeds = Rng::new(seed ^ 0xC0C0_0000 ^ ((P::NAME.as_bytes()[0] as u64) << 8) ^ (procs as u64));

    for run in 0..runs {
        let threads = tlist[run as usize % tlist.len()];
        let droot = format!("{root}/{mode}{}{tag}_{run}", P::NAME);
        let prefix = format!("c6{tag}{}{}{run}_", if procs { "p" } else { "c" }, P::NAME);
        let config = util::make_config(&droot, &prefix, timeout);
        let set = cfg_set(P::NAME, false);
        let dflt = P::defaults(&config);
        sh.reset();
        out.emit(&json!({"k":"reset","mode":mode,"pat":P::NAME,"threads":threads,"cfgs":set.cfgs,"dflt":dflt}));
        let mut evs: Vec<(u64, Value)> = vec![];
        let mut panics = 0u64;
        let wseeds: Vec<u64> = (0..threads).map(|_| seeds.next()).collect();
        if !procs {
            std::thread::scope(|sc| {
                let hs: Vec<_> = (0..threads)
                    .map(|t| {
                        let (sh, config, name, s) = (&sh, &config, &name, wseeds[t]);
                        sc.spawn(move || worker::<P>(sh, t, threads, s, iters, 0, 0, config, name))
                    })
                    .collect();
                for h in hs {
                    match h.join() {
                        Ok(v) => evs.extend(v),
                        Err(_) => panics += 1,
                    }
                }
            });
        } else {
            let exe = std::env::current_exe().expect("current exe");
            let mut children = vec![];
            for t in 0..threads {
                let evfile = format!("{droot}.child{t}.ndjson");
                // "slow motion": the first `slow` children run under strace with a delay injected
                // before and after every resource-creating / removing system call, i.e. they are
                // paused after each step of the protocol while the other processes run freely
                let is_slow = (t as u64) < slow;
                let child_iters = if is_slow { slow_iters } else { iters };
                let mut cmd = if is_slow {
                    let mut c = std::process::Command::new("strace");
                    let set = "openat,fchmod,write,unlink,ftruncate";
                    c.args(["-f", "-qq", "-o", "/dev/null", "-e", &format!("trace={set}"), "-e",
                            &format!("inject={set}:delay_enter={slow_us}:delay_exit={slow_us}")]);
                    c.arg(&exe);
                    c
                } else {
                    std::process::Command::new(&exe)
                };
                let ch = cmd
                    .args([
                        "conc-child", "--pat", P::NAME, "--root", &droot, "--prefix", &prefix, "--shared",
                        &shared_path, "--t", &t.to_string(), "--n", &threads.to_string(), "--wseed",
                        &wseeds[t].to_string(), "--iters", &child_iters.to_string(), "--timeout", &timeout.to_string(),
                        "--pace-us", &(if slow > 0 && !is_slow { pace_us } else { 0 }).to_string(),
                        "--role", &(if slow == 0 { 0 } else if is_slow { 1 } else { 2 }).to_string(),
                        "--events", &evfile,
                    ])
                    .spawn()
                    .expect("spawn child");
                children.push((ch, evfile));
            }
            for (mut ch, evfile) in children {
                let st = ch.wait().expect("wait child");
                if st.code() == Some(2) {
                    eprintln!("drv-service: a child process reported a harness problem");
                    std::process::exit(2);
                }
                if !st.success() {
                    panics += 1;
                }
                if std::path::Path::new(&evfile).exists() {
                    for e in vlib::trace::read_ndjson(&evfile) {
                        evs.push((e["g"].as_u64().unwrap(), e["ev"].clone()));
                    }
                    let _ = std::fs::remove_file(&evfile);
                }
            }
        }
        calls += evs.len() as u64 / 2;
        count_results(&evs, &mut counts);
        evs.push((sh.stamp(), observe::<P>("end", &name, &config, false, panics, &[])));
        panics_total += panics;
        write_events(&mut out, evs);
        util::cleanup_domain(&config);
    }
    out.flush();
    json!({"mode":mode,"pat":P::NAME,"runs":runs,"threads":tlist,"iters":iters,"calls":calls,
           "lines":out.lines,"results":counts,"panics":panics_total,"seed":seed})
}

/// One child process of the multi-process variant.
pub fn child<P: Pat>(args: &Args) {
    let droot = args.get("root").expect("--root");
    let prefix = args.get("prefix").expect("--prefix");
    let sh = Shared::open(&args.get("shared").expect("--shared"), false);
    let t = args.num("t", 0) as usize;
    let n = args.num("n", 1) as usize;
    let config = util::make_config(&droot, &prefix, args.num("timeout", 20_000));
    let name: ServiceName = "c06/svc".try_into().unwrap();
    let evs = worker::<P>(&sh, t, n, args.num("wseed", 1), args.num("iters", 100), args.num("pace-us", 0), args.num("role", 0), &config, &name);
    let mut out = TraceWriter::create(&args.get("events").expect("--events"));
    for (g, ev) in evs {
        out.emit(&json!({"g":g,"ev":ev}));
    }
    out.flush();
}
