//! Builder records used by the sequential and concurrent histories (the compatibility matrix
//! gets its records from TLC).  Index 1..=ncreators are complete creator records, the rest are
//! opener-only requirement records.

use vlib::{Value, json};

pub struct CfgSet {
    pub cfgs: Vec<Value>,
    pub creators: Vec<usize>, // 1-based indices usable for create / open_or_create
    pub openers: Vec<usize>,  // 1-based indices usable for open
    pub plain_opener: usize,  // requires nothing but the type of creators 1 and 2
}

pub fn cfg_set(pat: &str, small_nodes: bool) -> CfgSet {
    let mn = if small_nodes { 2 } else { 8 };
    let cfgs = match pat {
        "ps" => vec![
            json!({"ty":"A","tv":0,"sz":8,"al":8,"mp":2,"ms":2,"buf":2,"hist":1,"bor":2,"ov":1,"mn":mn,"at":-2}),
            json!({"ty":"A","tv":0,"sz":8,"al":8,"mp":3,"ms":3,"buf":4,"hist":2,"bor":3,"ov":1,"mn":8,"at":5}),
            json!({"ty":"B","tv":1,"sz":4,"al":4,"mp":-2,"ms":-2,"buf":-2,"hist":-2,"bor":-2,"ov":-2,"mn":-2,"at":-2}),
            json!({"ty":"A","tv":0,"sz":8,"al":4,"mp":-2,"ms":-2,"buf":-2,"hist":-2,"bor":-2,"ov":-2,"mn":-2,"at":-2}),
            json!({"ty":"A","tv":0,"sz":8,"al":8,"mp":-2,"ms":-2,"buf":-2,"hist":2,"bor":-2,"ov":-2,"mn":-2,"at":-1}),
            // 6: a FlatBuffers payload WITHOUT a schema file (tv = 2): the creation fails AFTER the static config
            // was written (UnableToAcquireTypeDefinition) - a naturally failing creation, no shim needed
            json!({"ty":"FB","tv":2,"sz":8,"al":8,"mp":-2,"ms":-2,"buf":-2,"hist":-2,"bor":-2,"ov":-2,"mn":-2,"at":-2}),
        ],
        "ev" => vec![
            json!({"mnot":2,"mlis":2,"eid":7,"mn":mn,"ce":1,"de":2,"xe":-1,"dl":-1,"at":-2}),
            json!({"mnot":3,"mlis":4,"eid":15,"mn":8,"ce":1,"de":2,"xe":3,"dl":50,"at":5}),
            json!({"mnot":-2,"mlis":-2,"eid":-2,"mn":-2,"ce":-2,"de":-2,"xe":-2,"dl":-2,"at":-2}),
            json!({"mnot":-2,"mlis":3,"eid":-2,"mn":-2,"ce":1,"de":-2,"xe":-2,"dl":-2,"at":-1}),
            json!({"mnot":-2,"mlis":-2,"eid":-2,"mn":-2,"ce":-2,"de":-2,"xe":-1,"dl":-1,"at":-2}),
        ],
        "rr" => vec![
            json!({"qty":"A","qtv":0,"qsz":8,"qal":8,"sty":"R","stv":0,"ssz":16,"sal":8,"ovq":1,"ovs":0,"faf":1,
                   "act":2,"loan":2,"bor":2,"buf":2,"msrv":2,"mcli":2,"mn":mn,"at":-2}),
            json!({"qty":"A","qtv":0,"qsz":8,"qal":8,"sty":"R","stv":0,"ssz":16,"sal":8,"ovq":1,"ovs":0,"faf":1,
                   "act":3,"loan":2,"bor":3,"buf":4,"msrv":2,"mcli":3,"mn":8,"at":5}),
            json!({"qty":"B","qtv":0,"qsz":4,"qal":4,"sty":"R","stv":0,"ssz":16,"sal":8,"ovq":-2,"ovs":-2,"faf":-2,
                   "act":-2,"loan":-2,"bor":-2,"buf":-2,"msrv":-2,"mcli":-2,"mn":-2,"at":-2}),
            json!({"qty":"A","qtv":0,"qsz":8,"qal":4,"sty":"R","stv":0,"ssz":16,"sal":8,"ovq":-2,"ovs":-2,"faf":-2,
                   "act":-2,"loan":-2,"bor":-2,"buf":-2,"msrv":-2,"mcli":-2,"mn":-2,"at":-2}),
            json!({"qty":"A","qtv":0,"qsz":8,"qal":8,"sty":"R","stv":0,"ssz":16,"sal":8,"ovq":-2,"ovs":-2,"faf":-2,
                   "act":-2,"loan":-2,"bor":-2,"buf":3,"msrv":-2,"mcli":-2,"mn":-2,"at":-1}),
        ],
        "bb" => vec![
            json!({"kty":"u64","ksz":8,"kal":8,"mr":2,"mn":mn,"at":-2}),
            json!({"kty":"u64","ksz":8,"kal":8,"mr":4,"mn":8,"at":5}),
            json!({"kty":"u32","ksz":4,"kal":4,"mr":-2,"mn":-2,"at":-2}),
            json!({"kty":"u64","ksz":8,"kal":8,"mr":-2,"mn":-2,"at":-2}),
            json!({"kty":"u64","ksz":8,"kal":8,"mr":3,"mn":-2,"at":-1}),
        ],
        _ => panic!("unknown pattern {pat}"),
    };
    let plain_opener = if pat == "ev" { 3 } else { 4 };
    CfgSet { cfgs, creators: vec![1, 2, 3], openers: vec![1, 2, 3, 4, 5], plain_opener }
}
