//! One create, one open, drop of the opener, drop of the creator - run under strace by the check to
//! read the ORDER of the resource-creating / removing system calls of the current build
//! (parameter extraction for ServiceLifecycle.tla, DESIGN.md 3.3).

use crate::cfgs::cfg_set;
use crate::ops::Actor;
use crate::pats::Pat;
use crate::util;
use iceoryx2::prelude::*;
use vlib::{Args, Value, json};

pub fn run<P: Pat>(args: &Args) -> Value {
    let root = args.get("root").expect("--root");
    let config = util::make_config(&format!("{root}/o{}{}", P::NAME, util::run_token(args)), &format!("c6{}o{}_", util::run_token(args), P::NAME), 20_000);
    let set = cfg_set(P::NAME, false);
    let name: ServiceName = "c06/steps".try_into().unwrap();
    let mut results = vec![];
    {
        let a: Actor<P> = Actor::new(&config, 0);
        let b: Actor<P> = Actor::new(&config, 1);
        eprintln!("C06-MARK begin");
        let created = P::create(&a.node, &name, &set.cfgs[0]);
        results.push(created.as_ref().map(|_| "Ok".to_string()).unwrap_or_else(|e| e.clone()));
        eprintln!("C06-MARK created");
        let opened = P::open(&b.node, &name, &set.cfgs[set.plain_opener - 1]);
        results.push(opened.as_ref().map(|_| "Ok".to_string()).unwrap_or_else(|e| e.clone()));
        eprintln!("C06-MARK opened");
        drop(opened);
        eprintln!("C06-MARK opener-dropped");
        drop(created);
        eprintln!("C06-MARK creator-dropped");
    }
    util::cleanup_domain(&config);
    json!({"mode":"steps","pat":P::NAME,"results":results})
}
