//! Executing and recording single API calls.

use crate::pats::{Pat, S};
use crate::util::{self, Shared};
use iceoryx2::config::Config;
use iceoryx2::node::{Node, NodeBuilder};
use iceoryx2::prelude::*;
use vlib::{Value, json};

pub const SLOTS: usize = 2;

#[derive(Clone, Debug)]
pub enum Op {
    Create { c: usize, slot: usize },
    Open { c: usize, slot: usize },
    Ooc { c: usize, slot: usize },
    Drop { slot: usize },
    Exist,
    List,
}

pub struct Actor<P: Pat> {
    pub node: Node<S>,
    pub nd: usize,
    pub slots: Vec<Option<P::H>>,
}

impl<P: Pat> Actor<P> {
    pub fn new(config: &Config, nd: usize) -> Self {
        let node = NodeBuilder::new()
            .config(config)
            .create::<S>()
            .unwrap_or_else(|e| {
                // nodes are not the subject of this property: a harness problem, not a verdict
                eprintln!("drv-service: node creation failed: {e:?}");
                std::process::exit(2)
            });
        Actor { node, nd, slots: (0..SLOTS).map(|_| None).collect() }
    }
    pub fn handle_no(&self, slot: usize) -> usize {
        self.nd * SLOTS + slot + 1
    }
    pub fn free_slot(&self) -> Option<usize> {
        self.slots.iter().position(|s| s.is_none())
    }
    pub fn held_slots(&self) -> Vec<usize> {
        (0..SLOTS).filter(|i| self.slots[*i].is_some()).collect()
    }
}

pub fn does_exist<P: Pat>(name: &ServiceName, config: &Config) -> Result<bool, String> {
    S::does_exist(name, config, P::MP).map_err(|e| format!("Err:{e:?}"))
}

pub fn listed<P: Pat>(name: &ServiceName, config: &Config) -> Result<u64, String> {
    let mut n = 0;
    S::list(config, |d| {
        if d.static_details.name() == name {
            n += 1;
        }
        CallbackProgression::Continue
    })
    .map_err(|e| format!("Err:{e:?}"))?;
    Ok(n)
}

/// Executes one call, stamped immediately before and immediately after, and appends the
/// `call` and `ret` events (with their stamps) to `out`.
#[allow(clippy::too_many_arguments)]
pub fn do_op<P: Pat>(
    sh: &Shared,
    out: &mut Vec<(u64, Value)>,
    t: usize,
    actor: &mut Actor<P>,
    op: &Op,
    name: &ServiceName,
    cfgs: &[Value],
    config: &Config,
    dflt: &Value,
) {
    let nd = actor.nd;
    let (a, c, slot) = match op {
        Op::Create { c, slot } => ("create", *c, Some(*slot)),
        Op::Open { c, slot } => ("open", *c, Some(*slot)),
        Op::Ooc { c, slot } => ("ooc", *c, Some(*slot)),
        Op::Drop { slot } => ("drop", 0, Some(*slot)),
        Op::Exist => ("exist", 0, None),
        Op::List => ("list", 0, None),
    };
    let h = slot.map(|s| actor.handle_no(s)).unwrap_or(0);
    let call = json!({"k":"call","t":t,"a":a,"nd":nd,"c":c,"h":h});
    let mut r = "Ok".to_string();
    let mut uid = String::new();
    let _ = dflt;
    let mut s = json!({});
    let mut v = 0u64;
    let g1;
    let g2;
    match op {
        Op::Create { c, slot } | Op::Open { c, slot } | Op::Ooc { c, slot } => {
            let cfg = &cfgs[*c - 1];
            g1 = sh.stamp();
            let res = match op {
                Op::Create { .. } => P::create(&actor.node, name, cfg),
                Op::Open { .. } => P::open(&actor.node, name, cfg),
                _ => P::ooc(&actor.node, name, cfg),
            };
            g2 = sh.stamp();
            match res {
                Ok(hd) => {
                    let seen = P::seen(&hd);
                    uid = seen.uid;
                    s = seen.s;
                    actor.slots[*slot] = Some(hd);
                }
                Err(e) => r = e,
            }
        }
        Op::Drop { slot } => {
            let hd = actor.slots[*slot].take().expect("drop of an empty slot");
            g1 = sh.stamp();
            drop(hd);
            g2 = sh.stamp();
        }
        Op::Exist => {
            g1 = sh.stamp();
            let res = does_exist::<P>(name, config);
            g2 = sh.stamp();
            match res {
                Ok(b) => v = b as u64,
                Err(e) => r = e,
            }
        }
        Op::List => {
            g1 = sh.stamp();
            let res = listed::<P>(name, config);
            g2 = sh.stamp();
            match res {
                Ok(n) => v = n,
                Err(e) => r = e,
            }
        }
    }
    out.push((g1, call));
    out.push((g2, json!({"k":"ret","t":t,"a":a,"r":r,"uid":uid,"s":s,"v":v,"h":h,"f":0})));
}

/// (node index, directory name of the node) of the live nodes of `actors`
pub fn node_ids<P: Pat>(actors: &[Actor<P>]) -> Vec<(usize, String)> {
    actors.iter().map(|a| (a.nd, a.node.id().value().to_string())).collect()
}

/// Quiescent observation of the domain.  `nodes` = the live nodes (index, directory name): `tg` lists the
/// indices of those that carry a service tag (a `*.service_tag` file in their details directory; every
/// domain of this driver has ONE service name).  `dirs` = number of node details directories in the domain.
pub fn observe<P: Pat>(
    kind: &str,
    name: &ServiceName,
    config: &Config,
    nodes_alive: bool,
    panics: u64,
    nodes: &[(usize, String)],
) -> Value {
    let tg = util::tagged_nodes(config, nodes);
    let dirs = util::node_dirs(config);
    let exist = match does_exist::<P>(name, config) {
        Ok(b) => b as i64,
        Err(_) => -1,
    };
    let listed = match listed::<P>(name, config) {
        Ok(n) => n as i64,
        Err(_) => -1,
    };
    let files = if nodes_alive { util::service_files(config) } else { util::root_files(config) };
    let shm = util::shm_objects(config, !nodes_alive).len();
    json!({"k":kind,"exist":exist,"listed":listed,"files":files,"shm":shm,"panics":panics,"tg":tg,"dirs":dirs,"crashed":0})
}

/// Sorts the events of a run by stamp, replaces the incarnation ids by small indices (order of
/// first appearance) and writes them.
pub fn write_events(out: &mut vlib::trace::TraceWriter, mut evs: Vec<(u64, Value)>) {
    evs.sort_by_key(|e| e.0);
    let mut ids: Vec<String> = vec![];
    for (g, mut ev) in evs {
        let o = ev.as_object_mut().unwrap();
        o.insert("g".into(), json!(g));
        if let Some(uid) = o.remove("uid") {
            let uid = uid.as_str().unwrap().to_string();
            let id = if uid.is_empty() {
                0
            } else {
                match ids.iter().position(|x| *x == uid) {
                    Some(i) => i + 1,
                    None => {
                        ids.push(uid);
                        ids.len()
                    }
                }
            };
            o.insert("id".into(), json!(id));
        }
        out.emit(&ev);
    }
}
