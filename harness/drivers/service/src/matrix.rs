//! (c) the compatibility matrix: for every creator/opener pair emitted by TLC create a real
//! service with the creator record, attempt the open with the opener record, report the outcome,
//! and check that the service is untouched (a following compatible open still succeeds and sees
//! identical settings, the creator's handle still shows the same settings).

use crate::ops::{Actor, does_exist};
use crate::pats::Pat;
use crate::util;
use iceoryx2::prelude::*;
use vlib::trace::TraceWriter;
use vlib::{Args, Value, json};

/// the creator record reduced to what any compatible opener needs: the types, nothing else required
fn type_only(c: &Value) -> Value {
    let mut o = c.clone();
    for (k, v) in o.as_object_mut().unwrap().iter_mut() {
        let is_type = k.ends_with("ty") || k.ends_with("tv") || k.ends_with("sz") || k.ends_with("al");
        if !is_type {
            *v = json!(crate::pats::UNSET);
        }
    }
    o
}

pub fn run<P: Pat>(args: &Args) -> Value {
    let root = args.get("root").expect("--root");
    let pairs = vlib::trace::read_ndjson(&args.get("pairs").expect("--pairs"));
    let mut out = TraceWriter::create(&args.get("out").expect("--out"));
    let config = util::make_config(&format!("{root}/m{}{}", P::NAME, util::run_token(args)), &format!("c6{}m{}_", util::run_token(args), P::NAME), args.num("timeout", 20_000));
    let name: ServiceName = "c06/matrix".try_into().unwrap();
    let mut n = 0u64;
    {
        let a: Actor<P> = Actor::new(&config, 0);
        let b: Actor<P> = Actor::new(&config, 1);
        // the control open ("service untouched") comes from a THIRD node, so that node b never holds the
        // service unless its own attempt succeeded: whatever a refused attempt leaves in b stays visible
        let d: Actor<P> = Actor::new(&config, 2);
        let ids = vec![(1usize, b.node.id().value().to_string()), (2usize, d.node.id().value().to_string()),
                       (0usize, a.node.id().value().to_string())];
        for p in &pairs {
            let (c, o) = (&p["c"], &p["o"]);
            n += 1;
            let created = P::create(&a.node, &name, c);
            let (cr, seen0) = match &created {
                Ok(h) => ("Ok".to_string(), Some(P::seen(h))),
                Err(e) => (e.clone(), None),
            };
            let mut rec = json!({"k":"pair","i":p["i"],"cr":cr,"r":"-","same":1,"again":"-","untouched":0,"clean":0,
                                 "tag":-1,"tags_end":-1});
            if let Some(seen0) = seen0 {
                let opened = P::open(&b.node, &name, o);
                match &opened {
                    Ok(h) => {
                        let s = P::seen(h);
                        rec["r"] = json!("Ok");
                        rec["same"] = json!((s.uid == seen0.uid && s.s == seen0.s) as u64);
                        rec["s"] = s.s;
                    }
                    Err(e) => rec["r"] = json!(e),
                }
                // node b carries a service tag exactly if its attempt succeeded
                rec["tag"] = json!(util::tagged_nodes(&config, &ids).contains(&1) as i64);
                // control open: from node b if it got in (no additional node), else from the third node d - so
                // that a node whose attempt was refused never holds the service afterwards
                let again = P::open(if opened.is_ok() { &b.node } else { &d.node }, &name, &type_only(c));
                match &again {
                    Ok(h) => {
                        let s = P::seen(h);
                        let still = P::seen(created.as_ref().ok().unwrap());
                        rec["again"] = json!("Ok");
                        rec["untouched"] =
                            json!((s.uid == seen0.uid && s.s == seen0.s && still.uid == seen0.uid && still.s == seen0.s) as u64);
                    }
                    Err(e) => rec["again"] = json!(e),
                }
                rec["s0"] = seen0.s;
                drop(again);
                drop(opened);
            }
            drop(created);
            rec["clean"] = json!(matches!(does_exist::<P>(&name, &config), Ok(false)) as u64);
            rec["tags_end"] = json!(util::tagged_nodes(&config, &ids).len());
            out.emit(&rec);
        }
    }
    let left = util::root_files(&config) + util::shm_objects(&config, true).len() as u64;
    out.flush();
    util::cleanup_domain(&config);
    json!({"mode":"matrix","pat":P::NAME,"pairs":n,"leftovers":left})
}
