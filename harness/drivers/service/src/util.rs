//! Isolated domains, the global real-time stamp, leftovers listing.

use core::time::Duration;
use iceoryx2::config::Config;
use iceoryx2::prelude::*;
use std::sync::atomic::{AtomicU64, Ordering};

/// Unique `global.prefix` + root path under the work directory: nothing is shared with other domains.
pub fn make_config(root: &str, prefix: &str, timeout_ms: u64) -> Config {
    let mut c = Config::default();
    std::fs::create_dir_all(root).expect("root dir");
    c.global.set_root_path(&Path::new(root.as_bytes()).expect("root path"));
    c.global.prefix = FileName::new(prefix.as_bytes()).expect("prefix");
    c.global.creation_timeout = Duration::from_millis(timeout_ms);
    // own default QoS values: a creator that leaves a setting unset must end up with THESE values
    // (and they must be distinguishable from the library's built-in defaults)
    let d = &mut c.defaults;
    d.publish_subscribe.max_publishers = 4;
    d.publish_subscribe.max_subscribers = 5;
    d.publish_subscribe.subscriber_max_buffer_size = 3;
    d.publish_subscribe.publisher_history_size = 1;
    d.publish_subscribe.subscriber_max_borrowed_samples = 2;
    d.publish_subscribe.enable_safe_overflow = true;
    d.publish_subscribe.max_nodes = 6;
    d.event.max_notifiers = 4;
    d.event.max_listeners = 5;
    d.event.event_id_max_value = 31;
    d.event.max_nodes = 6;
    d.event.notifier_created_event = None;
    d.event.notifier_dropped_event = Some(3);
    d.event.notifier_dead_event = None;
    d.event.deadline = None;
    d.request_response.max_active_requests_per_client = 3;
    d.request_response.max_loaned_requests = 2;
    d.request_response.max_borrowed_responses_per_pending_response = 3;
    d.request_response.max_response_buffer_size = 3;
    d.request_response.max_servers = 2;
    d.request_response.max_clients = 5;
    d.request_response.max_nodes = 6;
    d.blackboard.max_readers = 5;
    d.blackboard.max_nodes = 6;
    c
}

/// Shared words (mmap of a file, so that child processes see the same counters):
/// word 0 = global sequence stamp, word 1 = start barrier, word 2 = spare.
pub struct Shared {
    base: *mut AtomicU64,
}
unsafe impl Send for Shared {}
unsafe impl Sync for Shared {}

impl Shared {
    pub fn open(path: &str, create: bool) -> Shared {
        use std::os::fd::AsRawFd;
        if create {
            if let Some(parent) = std::path::Path::new(path).parent() {
                let _ = std::fs::create_dir_all(parent);
            }
        }
        let f = std::fs::OpenOptions::new()
            .read(true)
            .write(true)
            .create(create)
            .truncate(create)
            .open(path)
            .unwrap_or_else(|e| panic!("cannot open {path}: {e}"));
        if create {
            f.set_len(4096).expect("set_len");
        }
        let p = unsafe {
            libc::mmap(
                core::ptr::null_mut(),
                4096,
                libc::PROT_READ | libc::PROT_WRITE,
                libc::MAP_SHARED,
                f.as_raw_fd(),
                0,
            )
        };
        assert!(p != libc::MAP_FAILED, "mmap failed");
        Shared { base: p as *mut AtomicU64 }
    }
    fn word(&self, i: usize) -> &AtomicU64 {
        unsafe { &*self.base.add(i) }
    }
    /// The real-time stamp: taken immediately before a call and immediately after its return.
    #[inline]
    pub fn stamp(&self) -> u64 {
        self.word(0).fetch_add(1, Ordering::SeqCst) + 1
    }
    pub fn reset(&self) {
        for i in 0..3 {
            self.word(i).store(0, Ordering::SeqCst);
        }
    }
    /// Start barrier for `n` participants.
    pub fn barrier(&self, n: u64) {
        self.word(1).fetch_add(1, Ordering::SeqCst);
        let t0 = std::time::Instant::now();
        while self.word(1).load(Ordering::SeqCst) < n {
            std::thread::yield_now();
            if t0.elapsed().as_secs() > 600 {
                // a harness problem (overloaded machine, a peer that never started), not a verdict
                eprintln!("drv-service: start barrier timed out");
                std::process::exit(2);
            }
        }
    }
}

fn count_files(dir: &std::path::Path) -> u64 {
    let mut n = 0;
    if let Ok(rd) = std::fs::read_dir(dir) {
        for e in rd.flatten() {
            let p = e.path();
            match e.file_type() {
                Ok(t) if t.is_dir() => n += count_files(&p),
                Ok(_) => n += 1,
                Err(_) => {}
            }
        }
    }
    n
}

#[allow(dead_code)]
pub fn list_files(dir: &std::path::Path, out: &mut Vec<String>) {
    if let Ok(rd) = std::fs::read_dir(dir) {
        for e in rd.flatten() {
            let p = e.path();
            match e.file_type() {
                Ok(t) if t.is_dir() => list_files(&p, out),
                Ok(_) => out.push(p.to_string_lossy().to_string()),
                Err(_) => {}
            }
        }
    }
}

/// Regular files below `<root>/<service directory>` (static configs, type definitions, ...).
pub fn service_files(config: &Config) -> u64 {
    count_files(std::path::Path::new(&config.global.service_dir().to_string()))
}

/// All regular files below the isolated root (nodes included).
pub fn root_files(config: &Config) -> u64 {
    count_files(std::path::Path::new(&config.global.root_path().to_string()))
}

/// Shared-memory objects of this domain by prefix (dynamic configs, blackboard segments, data
/// segments, connections ...).  The node-level global management segment is persistent by design
/// and never counted; with `node_objects == false` the other node objects are skipped as well.
pub fn shm_objects(config: &Config, node_objects: bool) -> Vec<String> {
    let prefix = config.global.prefix.to_string();
    let global_mgmt = config.global.node.global_mgmt_suffix.to_string();
    let node_suffixes = [
        config.global.node.monitor_suffix.to_string(),
        config.global.node.static_config_suffix.to_string(),
    ];
    let mut v = vec![];
    if let Ok(rd) = std::fs::read_dir("/dev/shm") {
        for e in rd.flatten() {
            let n = e.file_name().to_string_lossy().to_string();
            if !n.starts_with(&prefix) || n.contains(&global_mgmt) {
                continue;
            }
            if node_objects || !node_suffixes.iter().any(|s| n.ends_with(s.as_str())) {
                v.push(n);
            }
        }
    }
    v
}

/// Indices of the nodes (index, details directory name) whose details directory contains a service tag.
pub fn tagged_nodes(config: &Config, nodes: &[(usize, String)]) -> Vec<usize> {
    let suffix = config.global.node.service_tag_suffix.to_string();
    let base = config.global.node_dir().to_string();
    let mut v = vec![];
    for (nd, dir) in nodes {
        if let Ok(rd) = std::fs::read_dir(format!("{base}/{dir}")) {
            if rd.flatten().any(|e| e.file_name().to_string_lossy().ends_with(suffix.as_str())) {
                v.push(*nd);
            }
        }
    }
    v.sort();
    v
}

/// Number of node details directories (sub-directories of the node directory) of the domain.
pub fn node_dirs(config: &Config) -> u64 {
    let mut n = 0;
    if let Ok(rd) = std::fs::read_dir(config.global.node_dir().to_string()) {
        for e in rd.flatten() {
            if matches!(e.file_type(), Ok(t) if t.is_dir()) {
                n += 1;
            }
        }
    }
    n
}

fn all_shm_objects(config: &Config) -> Vec<String> {
    let prefix = config.global.prefix.to_string();
    let mut v = vec![];
    if let Ok(rd) = std::fs::read_dir("/dev/shm") {
        for e in rd.flatten() {
            let n = e.file_name().to_string_lossy().to_string();
            if n.starts_with(&prefix) {
                v.push(n);
            }
        }
    }
    v
}

pub fn cleanup_domain(config: &Config) {
    for n in all_shm_objects(config) {
        let _ = std::fs::remove_file(format!("/dev/shm/{n}"));
    }
    let _ = std::fs::remove_dir_all(config.global.root_path().to_string());
}

/// Token that keeps concurrently running driver processes (and check runs) apart: the tag given by
/// the check plus this process' id.  Used in every domain prefix, root sub-directory and file name.
pub fn run_token(args: &vlib::Args) -> String {
    format!("{}{:x}", args.get_or("tag", ""), std::process::id())
}
