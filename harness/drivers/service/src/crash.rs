//! (f) CRASHED CREATOR: "every call terminates with a service or a documented error".
//!
//!   drv-service victim --pat P --root DOMROOT --prefix PFX --shared FILE --events FILE [--op create|ooc]
//!       node 0 creates (create / open_or_create) the service and drops it again.  Run by the check
//!       under the shim with IOX2_VERIF_KILL_AT=N: the process dies immediately before its N-th
//!       state-changing libc call.  A dry run prints the numbered range of the creation (n0, n1].
//!   drv-service opener --pat P --root DOMROOT --prefix PFX --shared FILE --events FILE --timeout MS
//!       three nodes of ANOTHER process, created one after the other, try to use the service:
//!       node 1 - no dead-node cleanup at all; node 2 - cleanup_dead_nodes_on_open; node 3 - the default
//!       configuration (cleanup when the node is created, when a service is opened, when the node is
//!       dropped).  Each: open, then open_or_create (create for the blackboard), does_exist; handles are
//!       dropped again.  All with a small creation timeout.
//! Both write their call/ret events one by one (flushed), so that the check can complete the history
//! of a process that was killed (`crash`) or that was proven to hang (result "Hang").

use crate::cfgs::cfg_set;
use crate::fault::{CallCtx, Emitter, Kind, Shim, call};
use crate::ops::{Actor, observe};
use crate::pats::Pat;
use crate::util::{self, Shared};
use iceoryx2::node::NodeBuilder;
use iceoryx2::prelude::*;
use vlib::trace::TraceWriter;
use vlib::{Args, json};

pub fn victim<P: Pat>(args: &Args) {
    let shim = Shim::require();
    let droot = args.get("root").expect("--root");
    let prefix = args.get("prefix").expect("--prefix");
    let sh = Shared::open(&args.get("shared").expect("--shared"), true);
    let mut out = TraceWriter::create(&args.get("events").expect("--events"));
    let config = util::make_config(&droot, &prefix, args.num("timeout", 20_000));
    let name: ServiceName = "c06/svc".try_into().unwrap();
    let set = cfg_set(P::NAME, false);
    let kind = if args.get_or("op", "create") == "ooc" && P::HAS_OOC { Kind::Ooc } else { Kind::Create };
    let mut counts = Default::default();
    let mut calls = 0u64;
    let mut em = Emitter::new(&mut out, &sh);
    em.raw_uid = true;
    em.reset(json!({"k":"reset","mode":"crash","pat":P::NAME,"threads":4,"cfgs":set.cfgs,"dflt":P::defaults(&config),
                    "op":kind.name(),"n":args.num("n", 0)}));
    let mut actor: Actor<P> = Actor::new(&config, 0);
    let mut cx = CallCtx::<P> {
        em: &mut em,
        name: &name,
        cfgs: &set.cfgs,
        config: &config,
        counts: &mut counts,
        calls: &mut calls,
        _p: core::marker::PhantomData,
    };
    let n0 = shim.count();
    let (r, _) = call::<P>(&mut cx, &mut actor, kind, 1, 0, None);
    let n1 = shim.count();
    println!("{}", json!({"k":"victim","r":r,"n0":n0,"n1":n1}));
    if r == "Ok" {
        call::<P>(&mut cx, &mut actor, Kind::Drop, 0, 0, None);
    }
    let n2 = shim.count();
    drop(actor);
    println!("{}", json!({"k":"victim-done","n2":n2,"n3":shim.count()}));
}

pub fn opener<P: Pat>(args: &Args) {
    let droot = args.get("root").expect("--root");
    let prefix = args.get("prefix").expect("--prefix");
    let sh = Shared::open(&args.get("shared").expect("--shared"), false);
    let mut out = TraceWriter::create(&args.get("events").expect("--events"));
    let timeout = args.num("timeout", 100);
    let name: ServiceName = "c06/svc".try_into().unwrap();
    let set = cfg_set(P::NAME, false);
    let plain = set.plain_opener;
    let mut counts = Default::default();
    let mut calls = 0u64;
    let mut em = Emitter::new(&mut out, &sh);
    em.raw_uid = true;
    for nd in 1..=3usize {
        let mut config = util::make_config(&droot, &prefix, timeout);
        match nd {
            1 => {
                config.global.node.cleanup_dead_nodes_on_creation = false;
                config.global.node.cleanup_dead_nodes_on_destruction = false;
                config.global.service.cleanup_dead_nodes_on_open = false;
            }
            2 => {
                config.global.node.cleanup_dead_nodes_on_creation = false;
                config.global.node.cleanup_dead_nodes_on_destruction = false;
                config.global.service.cleanup_dead_nodes_on_open = true;
            }
            _ => {}
        }
        em.put(json!({"k":"note","what":"node","nd":nd}));
        let node = match NodeBuilder::new().config(&config).create::<crate::pats::S>() {
            Ok(n) => n,
            Err(e) => {
                // after a crash the node layer may refuse (C04 / C07 territory): not a verdict of this property
                em.put(json!({"k":"note","what":format!("node-failed:{e:?}"),"nd":nd}));
                continue;
            }
        };
        let mut actor: Actor<P> = Actor { node, nd, slots: (0..crate::ops::SLOTS).map(|_| None).collect() };
        let mut cx = CallCtx::<P> {
            em: &mut em,
            name: &name,
            cfgs: &set.cfgs,
            config: &config,
            counts: &mut counts,
            calls: &mut calls,
            _p: core::marker::PhantomData,
        };
        let (r, _) = call::<P>(&mut cx, &mut actor, Kind::Open, plain, 0, None);
        if r == "Ok" {
            call::<P>(&mut cx, &mut actor, Kind::Drop, 0, 0, None);
        }
        let second = if P::HAS_OOC { Kind::Ooc } else { Kind::Create };
        let (r, _) = call::<P>(&mut cx, &mut actor, second, 2, 0, None);
        call::<P>(&mut cx, &mut actor, Kind::Exist, 0, 0, None);
        if r == "Ok" {
            call::<P>(&mut cx, &mut actor, Kind::Drop, 0, 0, None);
        }
        drop(actor);
    }
    let config = util::make_config(&droot, &prefix, timeout);
    let mut e = observe::<P>("end", &name, &config, false, 0, &[]);
    e["crashed"] = json!(args.num("crashed", 1));
    em.put(e);
    println!("{}", json!({"k":"opener-done","calls":calls,"results":counts}));
}
