//! Optional (thorough): deterministic interleavings of create vs open vs last-drop in ONE process
//! under the scheduler of vlib.  Every instrumented atomic access (registry container, ownership
//! flags, log level, ...) is a yield point.  Schedules with one preemption are enumerated
//! systematically: thread X runs until its k-th yield point, then thread Y runs to completion,
//! then X finishes - for every k and both orders ("creator paused after each step while an opener
//! runs to completion, and the converse").  The recorded call/ret history (totally ordered by the
//! scheduler) is validated by ServiceAbsTrace.tla like the free-running histories.
//!
//! Only atomics in mmap-ed memory (the shared-memory registry, heap objects of the worker threads)
//! are yield points; process-global statics are not.  The code under test also takes REAL process-
//! global mutexes (e.g. the process-state tracker): a thread paused at a yield point inside such a
//! critical section blocks its peer in the kernel, invisibly for the scheduler.  A watchdog thread
//! detects the stalled execution, reports where to resume (`{"hung_at": ...}`) and exits with
//! status 3; the check restarts the enumeration behind that schedule (`--resume`, a new output part).

use crate::cfgs::cfg_set;
use crate::ops::{Actor, Op, SLOTS, do_op, observe, write_events};
use crate::pats::Pat;
use crate::util::{self, Shared};
use iceoryx2::prelude::*;
use std::sync::{Arc, Mutex};
use vlib::sched::{self, Choice, Outcome, RunConfig, Strategy};
use vlib::trace::TraceWriter;
use vlib::{Args, Value, json};

/// The execution is serialised by the scheduler and every actor is used by one thread at a time.
struct SendBox<T>(T);
unsafe impl<T> Send for SendBox<T> {}

/// X = `first` runs until step `k`, then the other threads run to completion, then X finishes.
struct PauseAt {
    first: usize,
    k: usize,
    taken: usize,
    switched: bool,
    pub first_done_before_k: bool,
}

impl Strategy for PauseAt {
    fn choose(&mut self, c: &Choice) -> usize {
        if !self.switched {
            if c.enabled.contains(&self.first) && self.taken < self.k {
                self.taken += 1;
                return self.first;
            }
            if !c.enabled.contains(&self.first) && self.taken < self.k {
                self.first_done_before_k = true;
            }
            self.switched = true;
        }
        // the others, lowest first; `first` only when nobody else can run
        for t in c.enabled {
            if *t != self.first {
                return *t;
            }
        }
        self.first
    }
}

#[derive(Clone, Copy)]
struct Scenario {
    name: &'static str,
    pre: bool,                  // the service exists before the run (held by actor 2)
    progs: [&'static [&'static str]; 2],
    needs_ooc: bool,
}

const SCENARIOS: &[Scenario] = &[
    Scenario { name: "lastdrop_vs_open", pre: true, progs: [&["dropx"], &["open", "exist", "drop"]], needs_ooc: false },
    Scenario { name: "create_vs_open", pre: false, progs: [&["create", "exist", "drop"], &["open", "exist", "drop"]], needs_ooc: false },
    Scenario { name: "create_vs_create", pre: false, progs: [&["create", "exist", "drop"], &["create", "exist", "drop"]], needs_ooc: false },
    Scenario { name: "lastdrop_vs_create", pre: true, progs: [&["dropx"], &["create", "exist", "drop"]], needs_ooc: false },
    Scenario { name: "ooc_vs_ooc", pre: false, progs: [&["ooc", "exist", "drop"], &["ooc", "exist", "drop"]], needs_ooc: true },
    Scenario { name: "lastdrop_vs_ooc", pre: true, progs: [&["dropx"], &["ooc", "exist", "drop"]], needs_ooc: true },
];

pub fn run<P: Pat>(args: &Args) -> Value {
    let root = args.get("root").expect("--root");
    let timeout = args.num("timeout", 30);          // short: a paused peer is waited for in vain
    // resume point "scenario-index,first,k" (exclusive: the enumeration continues behind it)
    let resume: Option<(usize, usize, usize)> = args.get("resume").map(|r| {
        let v: Vec<usize> = r.split(',').map(|x| x.parse().expect("--resume")).collect();
        (v[0], v[1], v[2])
    });
    let stall_secs = args.num("stall-secs", 60);
    let progress = Arc::new(Mutex::new((std::time::Instant::now(), String::new(), false)));
    {
        let progress = progress.clone();
        std::thread::spawn(move || loop {
            std::thread::sleep(std::time::Duration::from_millis(500));
            let p = progress.lock().unwrap();
            if p.2 {
                return;
            }
            if !p.1.is_empty() && p.0.elapsed().as_secs() >= stall_secs {
                println!("{{\"hung_at\":\"{}\"}}", p.1);
                std::process::exit(3);
            }
        });
    }
    let stride = args.num("stride", 1) as usize;
    let max_k = args.num("maxk", 100_000) as usize;
    let tag = util::run_token(args);
    let only = args.get("scenario");
    let mut out = TraceWriter::create(&args.get("out").expect("--out"));
    let sh = Arc::new(Shared::open(&format!("{root}/sched-{}-{tag}.shared", P::NAME), true));
    let name: ServiceName = "c06/svc".try_into().unwrap();
    let plain = cfg_set(P::NAME, false).plain_opener;
    let set = Arc::new(cfg_set(P::NAME, false).cfgs);
    let mut executions = 0u64;
    let mut anomalies = 0u64;
    let mut calls = 0u64;
    let mut steps_seen = vec![];
    let mut counts = std::collections::BTreeMap::<String, u64>::new();

    for (si, sc) in SCENARIOS.iter().enumerate() {
        if sc.needs_ooc && !P::HAS_OOC {
            continue;
        }
        if let Some(o) = &only {
            if o != sc.name {
                continue;
            }
        }
        for first in 0..2usize {
            let mut k = 0usize;
            if let Some((rs, rf, rk)) = resume {
                if (si, first) < (rs, rf) {
                    continue;
                }
                if (si, first) == (rs, rf) {
                    k = rk + stride;
                }
            }
            loop {
                *progress.lock().unwrap() = (std::time::Instant::now(), format!("{si},{first},{k}"), false);
                let config = util::make_config(
                    &format!("{root}/x{}{tag}_{si}", P::NAME),
                    &format!("c6{tag}x{}{si}_", P::NAME),
                    timeout,
                );
                let dflt = P::defaults(&config);
                sh.reset();
                out.emit(&json!({"k":"reset","mode":"sched","pat":P::NAME,"threads":3,"cfgs":*set,"dflt":dflt,
                                 "scenario":sc.name,"first":first,"pause_at":k}));
                let mut evs: Vec<(u64, Value)> = vec![];
                // set-up outside of the scheduler: three nodes; actor 2 optionally creates the service
                let mut holder: Actor<P> = Actor::new(&config, 2);
                if sc.pre {
                    do_op::<P>(&sh, &mut evs, 2, &mut holder, &Op::Create { c: 1, slot: 0 }, &name, &set, &config, &dflt);
                }
                let actors: Vec<Arc<Mutex<SendBox<Actor<P>>>>> =
                    (0..2).map(|i| Arc::new(Mutex::new(SendBox(Actor::new(&config, i))))).collect();
                let holder = Arc::new(Mutex::new(SendBox(holder)));
                let log: Arc<Mutex<Vec<(u64, Value)>>> = Arc::new(Mutex::new(vec![]));
                let mut bodies: Vec<sched::Body> = vec![];
                for t in 0..2usize {
                    let (actor, holder, log, sh, set, config, dflt) =
                        (actors[t].clone(), holder.clone(), log.clone(), sh.clone(), set.clone(), config.clone(), dflt.clone());
                    let prog = sc.progs[t];
                    bodies.push(Box::new(move || {
                        let mut mine = vec![];
                        for step in prog {
                            sched::yield_api(step);
                            match *step {
                                "dropx" => {
                                    // the last user (actor 2, thread 2 in the history) drops its handle here
                                    let mut h = holder.lock().unwrap();
                                    do_op::<P>(&sh, &mut mine, 2, &mut h.0, &Op::Drop { slot: 0 }, &name, &set, &config, &dflt);
                                }
                                s => {
                                    let mut a = actor.lock().unwrap();
                                    let op = match s {
                                        "create" => Op::Create { c: 2, slot: 0 },
                                        "open" => Op::Open { c: plain, slot: 0 },
                                        "ooc" => Op::Ooc { c: 1, slot: 0 },
                                        "exist" => Op::Exist,
                                        "drop" => {
                                            if a.0.slots[0].is_none() {
                                                continue;
                                            }
                                            Op::Drop { slot: 0 }
                                        }
                                        x => panic!("unknown step {x}"),
                                    };
                                    do_op::<P>(&sh, &mut mine, t, &mut a.0, &op, &name, &set, &config, &dflt);
                                }
                            }
                        }
                        log.lock().unwrap().extend(mine);
                    }));
                }
                let mut strat = PauseAt { first, k, taken: 0, switched: false, first_done_before_k: false };
                // yield points: atomics in mmap-ed memory only (x86-64 Linux user space above 0x7000_0000_0000)
                let cfg = RunConfig {
                    ranges: vec![(0x7000_0000_0000, 0x0fff_ffff_ffff)],
                    max_steps: 200_000,
                    record_atoms: false,
                    ..Default::default()
                };
                let res = sched::run(cfg, bodies, &mut strat);
                executions += 1;
                let nsteps = res.schedule.len();
                let mut panics = res.panics.len() as u64;
                if res.outcome != Outcome::Completed {
                    panics += 1;
                }
                if panics > 0 {
                    anomalies += 1;
                }
                evs.extend(log.lock().unwrap().drain(..));
                // orderly end outside of the scheduler
                for a in actors.iter().chain(std::iter::once(&holder)) {
                    let mut a = a.lock().unwrap();
                    for slot in 0..SLOTS {
                        if a.0.slots[slot].is_some() {
                            let t = a.0.nd;
                            do_op::<P>(&sh, &mut evs, t, &mut a.0, &Op::Drop { slot }, &name, &set, &config, &dflt);
                        }
                    }
                }
                drop(actors);
                drop(holder);
                for (_, e) in &evs {
                    if e["k"] == "ret" {
                        calls += 1;
                        *counts
                            .entry(format!("{}:{}", e["a"].as_str().unwrap(), e["r"].as_str().unwrap()))
                            .or_default() += 1;
                    }
                }
                evs.push((sh.stamp(), observe::<P>("end", &name, &config, false, panics, &[])));
                write_events(&mut out, evs);
                out.flush();
                util::cleanup_domain(&config);
                if k == 0 {
                    steps_seen.push(json!({"scenario": sc.name, "first": first, "steps": nsteps}));
                }
                if strat.first_done_before_k || k >= max_k {
                    break;
                }
                k += stride;
            }
        }
    }
    out.flush();
    progress.lock().unwrap().2 = true;
    json!({"mode":"sched","pat":P::NAME,"executions":executions,"anomalies":anomalies,"calls":calls,
           "lines":out.lines,"results":counts,"steps":steps_seen})
}
