//! The four messaging patterns behind one interface: build a service builder from a *builder
//! record* (see spec/service/ServiceCompat.tla for the fields; -2 = setter not called), call
//! create / open / open_or_create, render the `static_config()` of a handle as a settings record.

use core::time::Duration;
use iceoryx2::config::Config;
use iceoryx2::node::Node;
use iceoryx2::port::event_id::EventId;
use iceoryx2::prelude::*;
use iceoryx2::service::attribute::{AttributeSpecifier, AttributeVerifier};
use iceoryx2::service::builder::blackboard::{BlackboardCreateError, BlackboardOpenError};
use iceoryx2::service::builder::event::EventOpenOrCreateError;
use iceoryx2::service::builder::publish_subscribe::PublishSubscribeOpenOrCreateError;
use iceoryx2::service::builder::request_response::RequestResponseOpenOrCreateError;
use iceoryx2::service::marker::CustomPayloadMarker;
use iceoryx2::service::port_factory::PortFactory as PortFactoryTrait;
use iceoryx2::service::port_factory::{blackboard, event, publish_subscribe, request_response};
use iceoryx2::service::static_config::message_type_details::{TypeDetail, TypeVariant};
use vlib::{Value, json};

pub type S = ipc::Service;
pub const UNSET: i64 = -2;
pub const ATTR_KEY: &str = "k";

pub fn geti(c: &Value, f: &str) -> i64 {
    c.get(f).and_then(|v| v.as_i64()).unwrap_or_else(|| panic!("field {f} missing in {c}"))
}
pub fn gets<'a>(c: &'a Value, f: &str) -> &'a str {
    c.get(f).and_then(|v| v.as_str()).unwrap_or_else(|| panic!("field {f} missing in {c}"))
}
fn set(c: &Value, f: &str) -> Option<usize> {
    let v = geti(c, f);
    if v == UNSET { None } else { Some(v as usize) }
}
fn setb(c: &Value, f: &str) -> Option<bool> {
    set(c, f).map(|v| v != 0)
}

fn type_detail(name: &str, variant: i64, size: i64, align: i64) -> TypeDetail {
    TypeDetail::__internal_new_from_parts(
        if variant == 0 { TypeVariant::FixedSize } else { TypeVariant::Dynamic },
        name,
        size as usize,
        align as usize,
    )
    .expect("type name fits")
}
fn tv(v: TypeVariant) -> i64 {
    match v {
        TypeVariant::FixedSize => 0,
        TypeVariant::Dynamic => 1,
    }
}

fn specifier(c: &Value) -> AttributeSpecifier {
    let at = geti(c, "at");
    let s = AttributeSpecifier::new();
    if at >= 0 {
        s.define(&ATTR_KEY.try_into().unwrap(), &at.to_string().as_str().try_into().unwrap()).unwrap()
    } else {
        s
    }
}
fn verifier(c: &Value) -> AttributeVerifier {
    let at = geti(c, "at");
    let v = AttributeVerifier::new();
    if at >= 0 {
        v.require(&ATTR_KEY.try_into().unwrap(), &at.to_string().as_str().try_into().unwrap()).unwrap()
    } else if at == -1 {
        v.require_key(&ATTR_KEY.try_into().unwrap()).unwrap()
    } else {
        v
    }
}
fn attr_of(a: &iceoryx2::service::attribute::AttributeSet) -> i64 {
    match a.key_value(&ATTR_KEY.try_into().unwrap(), 0) {
        Some(v) => v.to_string().parse::<i64>().unwrap_or(-3),
        None => UNSET,
    }
}

/// What a handle shows: the incarnation id and the complete settings.
pub struct Seen {
    pub uid: String,
    pub s: Value,
}

pub trait Pat: 'static {
    type H;
    const NAME: &'static str;
    const MP: MessagingPattern;
    const HAS_OOC: bool;
    fn create(node: &Node<S>, name: &ServiceName, c: &Value) -> Result<Self::H, String>;
    fn open(node: &Node<S>, name: &ServiceName, c: &Value) -> Result<Self::H, String>;
    fn ooc(node: &Node<S>, name: &ServiceName, c: &Value) -> Result<Self::H, String>;
    fn seen(h: &Self::H) -> Seen;
    /// the configured defaults as a settings record (type fields are placeholders)
    fn defaults(config: &Config) -> Value;
}

fn dbg<E: core::fmt::Debug>(e: E) -> String {
    format!("{e:?}")
}

// ------------------------------------------------------------------------------------------
// publish-subscribe
pub struct Ps;
type PsBuilder = iceoryx2::service::builder::publish_subscribe::Builder<[CustomPayloadMarker], (), S>;

fn ps_builder(node: &Node<S>, name: &ServiceName, c: &Value) -> PsBuilder {
    let mut b = unsafe {
        node.service_builder(name)
            .publish_subscribe::<[CustomPayloadMarker]>()
            .__internal_set_payload_type_details(&type_detail(
                gets(c, "ty"),
                geti(c, "tv"),
                geti(c, "sz"),
                geti(c, "al"),
            ))
    };
    if let Some(v) = set(c, "mp") {
        b = b.max_publishers(v);
    }
    if let Some(v) = set(c, "ms") {
        b = b.max_subscribers(v);
    }
    if let Some(v) = set(c, "buf") {
        b = b.subscriber_max_buffer_size(v);
    }
    if let Some(v) = set(c, "hist") {
        b = b.history_size(v);
    }
    if let Some(v) = set(c, "bor") {
        b = b.subscriber_max_borrowed_samples(v);
    }
    if let Some(v) = setb(c, "ov") {
        b = b.enable_safe_overflow(v);
    }
    if let Some(v) = set(c, "mn") {
        b = b.max_nodes(v);
    }
    b
}

impl Pat for Ps {
    type H = publish_subscribe::PortFactory<S, [CustomPayloadMarker], ()>;
    const NAME: &'static str = "ps";
    const MP: MessagingPattern = MessagingPattern::PublishSubscribe;
    const HAS_OOC: bool = true;

    fn create(node: &Node<S>, name: &ServiceName, c: &Value) -> Result<Self::H, String> {
        if geti(c, "tv") == 2 {
            // FlatBuffers payload for which no schema file exists: documented to fail with
            // UnableToAcquireTypeDefinition (after the static config was already written)
            return match node
                .service_builder(name)
                .publish_subscribe::<iceoryx2::service::marker::Flatbuffer<u64>>()
                .create()
            {
                Ok(_h) => Err("CreatedWithoutSchema".to_string()),
                Err(e) => Err(dbg(e)),
            };
        }
        ps_builder(node, name, c).create_with_attributes(&specifier(c)).map_err(dbg)
    }
    fn open(node: &Node<S>, name: &ServiceName, c: &Value) -> Result<Self::H, String> {
        ps_builder(node, name, c).open_with_attributes(&verifier(c)).map_err(dbg)
    }
    fn ooc(node: &Node<S>, name: &ServiceName, c: &Value) -> Result<Self::H, String> {
        ps_builder(node, name, c).open_or_create_with_attributes(&verifier(c)).map_err(|e| match e {
            PublishSubscribeOpenOrCreateError::PublishSubscribeOpenError(e) => format!("Open:{e:?}"),
            PublishSubscribeOpenOrCreateError::PublishSubscribeCreateError(e) => format!("Create:{e:?}"),
            PublishSubscribeOpenOrCreateError::SystemInFlux => "SystemInFlux".to_string(),
        })
    }
    fn seen(h: &Self::H) -> Seen {
        let c = h.static_config();
        let p = c.message_type_details().payload;
        Seen {
            uid: format!("{:x}", h.unique_service_id().value()),
            s: json!({"ty": p.type_name().to_string(), "tv": tv(p.variant()), "sz": p.size(), "al": p.alignment(),
                      "mp": c.max_publishers(), "ms": c.max_subscribers(), "buf": c.subscriber_max_buffer_size(),
                      "hist": c.history_size(), "bor": c.subscriber_max_borrowed_samples(),
                      "ov": c.has_safe_overflow() as i64, "mn": c.max_nodes(), "at": attr_of(h.attributes())}),
        }
    }
    fn defaults(config: &Config) -> Value {
        let d = &config.defaults.publish_subscribe;
        json!({"ty": "-", "tv": 0, "sz": 0, "al": 0, "mp": d.max_publishers, "ms": d.max_subscribers,
               "buf": d.subscriber_max_buffer_size, "hist": d.publisher_history_size,
               "bor": d.subscriber_max_borrowed_samples, "ov": d.enable_safe_overflow as i64,
               "mn": d.max_nodes, "at": UNSET})
    }
}

// ------------------------------------------------------------------------------------------
// event
pub struct Ev;
type EvBuilder = iceoryx2::service::builder::event::Builder<S>;

fn ev_builder(node: &Node<S>, name: &ServiceName, c: &Value) -> EvBuilder {
    let mut b = node.service_builder(name).event();
    if let Some(v) = set(c, "mnot") {
        b = b.max_notifiers(v);
    }
    if let Some(v) = set(c, "mlis") {
        b = b.max_listeners(v);
    }
    if let Some(v) = set(c, "eid") {
        b = b.event_id_max_value(v);
    }
    if let Some(v) = set(c, "mn") {
        b = b.max_nodes(v);
    }
    match geti(c, "ce") {
        UNSET => {}
        -1 => b = b.disable_notifier_created_event(),
        v => b = b.notifier_created_event(EventId::new(v as usize)),
    }
    match geti(c, "de") {
        UNSET => {}
        -1 => b = b.disable_notifier_dropped_event(),
        v => b = b.notifier_dropped_event(EventId::new(v as usize)),
    }
    match geti(c, "xe") {
        UNSET => {}
        -1 => b = b.disable_notifier_dead_event(),
        v => b = b.notifier_dead_event(EventId::new(v as usize)),
    }
    match geti(c, "dl") {
        UNSET => {}
        -1 => b = b.disable_deadline(),
        v => b = b.deadline(Duration::from_millis(v as u64)),
    }
    b
}
fn opt_id(v: Option<EventId>) -> i64 {
    v.map(|e| e.as_value() as i64).unwrap_or(-1)
}
fn opt_us(v: Option<usize>) -> i64 {
    v.map(|e| e as i64).unwrap_or(-1)
}

impl Pat for Ev {
    type H = event::PortFactory<S>;
    const NAME: &'static str = "ev";
    const MP: MessagingPattern = MessagingPattern::Event;
    const HAS_OOC: bool = true;

    fn create(node: &Node<S>, name: &ServiceName, c: &Value) -> Result<Self::H, String> {
        ev_builder(node, name, c).create_with_attributes(&specifier(c)).map_err(dbg)
    }
    fn open(node: &Node<S>, name: &ServiceName, c: &Value) -> Result<Self::H, String> {
        ev_builder(node, name, c).open_with_attributes(&verifier(c)).map_err(dbg)
    }
    fn ooc(node: &Node<S>, name: &ServiceName, c: &Value) -> Result<Self::H, String> {
        ev_builder(node, name, c).open_or_create_with_attributes(&verifier(c)).map_err(|e| match e {
            EventOpenOrCreateError::EventOpenError(e) => format!("Open:{e:?}"),
            EventOpenOrCreateError::EventCreateError(e) => format!("Create:{e:?}"),
            EventOpenOrCreateError::SystemInFlux => "SystemInFlux".to_string(),
        })
    }
    fn seen(h: &Self::H) -> Seen {
        let c = h.static_config();
        Seen {
            uid: format!("{:x}", h.unique_service_id().value()),
            s: json!({"mnot": c.max_notifiers(), "mlis": c.max_listeners(), "eid": c.event_id_max_value(),
                      "mn": c.max_nodes(), "ce": opt_id(c.notifier_created_event()),
                      "de": opt_id(c.notifier_dropped_event()), "xe": opt_id(c.notifier_dead_event()),
                      "dl": c.deadline().map(|d| d.as_millis() as i64).unwrap_or(-1),
                      "at": attr_of(h.attributes())}),
        }
    }
    fn defaults(config: &Config) -> Value {
        let d = &config.defaults.event;
        json!({"mnot": d.max_notifiers, "mlis": d.max_listeners, "eid": d.event_id_max_value, "mn": d.max_nodes,
               "ce": opt_us(d.notifier_created_event), "de": opt_us(d.notifier_dropped_event),
               "xe": opt_us(d.notifier_dead_event),
               "dl": d.deadline.map(|d| d.as_millis() as i64).unwrap_or(-1), "at": UNSET})
    }
}

// ------------------------------------------------------------------------------------------
// request-response
pub struct Rr;
type RrBuilder = iceoryx2::service::builder::request_response::Builder<
    [CustomPayloadMarker],
    (),
    [CustomPayloadMarker],
    (),
    S,
>;

fn rr_builder(node: &Node<S>, name: &ServiceName, c: &Value) -> RrBuilder {
    let mut b = unsafe {
        node.service_builder(name)
            .request_response::<[CustomPayloadMarker], [CustomPayloadMarker]>()
            .__internal_set_request_payload_type_details(&type_detail(
                gets(c, "qty"),
                geti(c, "qtv"),
                geti(c, "qsz"),
                geti(c, "qal"),
            ))
            .__internal_set_response_payload_type_details(&type_detail(
                gets(c, "sty"),
                geti(c, "stv"),
                geti(c, "ssz"),
                geti(c, "sal"),
            ))
    };
    if let Some(v) = setb(c, "ovq") {
        b = b.enable_safe_overflow_for_requests(v);
    }
    if let Some(v) = setb(c, "ovs") {
        b = b.enable_safe_overflow_for_responses(v);
    }
    if let Some(v) = setb(c, "faf") {
        b = b.enable_fire_and_forget_requests(v);
    }
    if let Some(v) = set(c, "act") {
        b = b.max_active_requests_per_client(v);
    }
    if let Some(v) = set(c, "loan") {
        b = b.max_loaned_requests(v);
    }
    if let Some(v) = set(c, "bor") {
        b = b.max_borrowed_responses_per_pending_response(v);
    }
    if let Some(v) = set(c, "buf") {
        b = b.max_response_buffer_size(v);
    }
    if let Some(v) = set(c, "msrv") {
        b = b.max_servers(v);
    }
    if let Some(v) = set(c, "mcli") {
        b = b.max_clients(v);
    }
    if let Some(v) = set(c, "mn") {
        b = b.max_nodes(v);
    }
    b
}

impl Pat for Rr {
    type H = request_response::PortFactory<S, [CustomPayloadMarker], (), [CustomPayloadMarker], ()>;
    const NAME: &'static str = "rr";
    const MP: MessagingPattern = MessagingPattern::RequestResponse;
    const HAS_OOC: bool = true;

    fn create(node: &Node<S>, name: &ServiceName, c: &Value) -> Result<Self::H, String> {
        rr_builder(node, name, c).create_with_attributes(&specifier(c)).map_err(dbg)
    }
    fn open(node: &Node<S>, name: &ServiceName, c: &Value) -> Result<Self::H, String> {
        rr_builder(node, name, c).open_with_attributes(&verifier(c)).map_err(dbg)
    }
    fn ooc(node: &Node<S>, name: &ServiceName, c: &Value) -> Result<Self::H, String> {
        rr_builder(node, name, c).open_or_create_with_attributes(&verifier(c)).map_err(|e| match e {
            RequestResponseOpenOrCreateError::RequestResponseOpenError(e) => format!("Open:{e:?}"),
            RequestResponseOpenOrCreateError::RequestResponseCreateError(e) => format!("Create:{e:?}"),
            RequestResponseOpenOrCreateError::SystemInFlux => "SystemInFlux".to_string(),
        })
    }
    fn seen(h: &Self::H) -> Seen {
        let c = h.static_config();
        let q = c.request_message_type_details().payload;
        let r = c.response_message_type_details().payload;
        Seen {
            uid: format!("{:x}", h.unique_service_id().value()),
            s: json!({"qty": q.type_name().to_string(), "qtv": tv(q.variant()), "qsz": q.size(), "qal": q.alignment(),
                      "sty": r.type_name().to_string(), "stv": tv(r.variant()), "ssz": r.size(), "sal": r.alignment(),
                      "ovq": c.has_safe_overflow_for_requests() as i64,
                      "ovs": c.has_safe_overflow_for_responses() as i64,
                      "faf": c.does_support_fire_and_forget_requests() as i64,
                      "act": c.max_active_requests_per_client(), "loan": c.max_loaned_requests(),
                      "bor": c.max_borrowed_responses_per_pending_response(),
                      "buf": c.max_response_buffer_size(), "msrv": c.max_servers(), "mcli": c.max_clients(),
                      "mn": c.max_nodes(), "at": attr_of(h.attributes())}),
        }
    }
    fn defaults(config: &Config) -> Value {
        let d = &config.defaults.request_response;
        json!({"qty": "-", "qtv": 0, "qsz": 0, "qal": 0, "sty": "-", "stv": 0, "ssz": 0, "sal": 0,
               "ovq": d.enable_safe_overflow_for_requests as i64, "ovs": d.enable_safe_overflow_for_responses as i64,
               "faf": d.enable_fire_and_forget_requests as i64, "act": d.max_active_requests_per_client,
               "loan": d.max_loaned_requests, "bor": d.max_borrowed_responses_per_pending_response,
               "buf": d.max_response_buffer_size, "msrv": d.max_servers, "mcli": d.max_clients,
               "mn": d.max_nodes, "at": UNSET})
    }
}

// ------------------------------------------------------------------------------------------
// blackboard (key types u32 / i32 / u64; create + open only)
pub struct Bb;
pub enum BbH {
    U32(blackboard::PortFactory<S, u32>),
    I32(blackboard::PortFactory<S, i32>),
    U64(blackboard::PortFactory<S, u64>),
}

macro_rules! bb_create {
    ($t:ty, $variant:ident, $node:expr, $name:expr, $c:expr) => {{
        let mut b = $node.service_builder($name).blackboard_creator::<$t>().add::<u64>(1 as $t, 0);
        if let Some(v) = set($c, "mr") {
            b = b.max_readers(v);
        }
        if let Some(v) = set($c, "mn") {
            b = b.max_nodes(v);
        }
        b.create_with_attributes(&specifier($c))
            .map(BbH::$variant)
            .map_err(|e: BlackboardCreateError| format!("{e:?}"))
    }};
}
macro_rules! bb_open {
    ($t:ty, $variant:ident, $node:expr, $name:expr, $c:expr) => {{
        let mut b = $node.service_builder($name).blackboard_opener::<$t>();
        if let Some(v) = set($c, "mr") {
            b = b.max_readers(v);
        }
        if let Some(v) = set($c, "mn") {
            b = b.max_nodes(v);
        }
        b.open_with_attributes(&verifier($c))
            .map(BbH::$variant)
            .map_err(|e: BlackboardOpenError| format!("{e:?}"))
    }};
}
macro_rules! bb_seen {
    ($h:expr) => {{
        let c = $h.static_config();
        let k = c.type_details();
        Seen {
            uid: format!("{:x}", $h.unique_service_id().value()),
            s: json!({"kty": k.type_name().to_string(), "ksz": k.size(), "kal": k.alignment(),
                      "mr": c.max_readers(), "mn": c.max_nodes(), "at": attr_of($h.attributes())}),
        }
    }};
}

impl Pat for Bb {
    type H = BbH;
    const NAME: &'static str = "bb";
    const MP: MessagingPattern = MessagingPattern::Blackboard;
    const HAS_OOC: bool = false;

    fn create(node: &Node<S>, name: &ServiceName, c: &Value) -> Result<Self::H, String> {
        match gets(c, "kty") {
            "u32" => bb_create!(u32, U32, node, name, c),
            "i32" => bb_create!(i32, I32, node, name, c),
            "u64" => bb_create!(u64, U64, node, name, c),
            k => panic!("unsupported key type {k}"),
        }
    }
    fn open(node: &Node<S>, name: &ServiceName, c: &Value) -> Result<Self::H, String> {
        match gets(c, "kty") {
            "u32" => bb_open!(u32, U32, node, name, c),
            "i32" => bb_open!(i32, I32, node, name, c),
            "u64" => bb_open!(u64, U64, node, name, c),
            k => panic!("unsupported key type {k}"),
        }
    }
    fn ooc(_node: &Node<S>, _name: &ServiceName, _c: &Value) -> Result<Self::H, String> {
        panic!("the blackboard has no open_or_create")
    }
    fn seen(h: &Self::H) -> Seen {
        match h {
            BbH::U32(h) => bb_seen!(h),
            BbH::I32(h) => bb_seen!(h),
            BbH::U64(h) => bb_seen!(h),
        }
    }
    fn defaults(config: &Config) -> Value {
        let d = &config.defaults.blackboard;
        json!({"kty": "-", "ksz": 0, "kal": 0, "mr": d.max_readers, "mn": d.max_nodes, "at": UNSET})
    }
}

pub fn defaults_of<P: Pat>(config: &Config) -> Value {
    P::defaults(config)
}
