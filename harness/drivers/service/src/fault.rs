//! (e) FAULT INJECTION: "a create / open / open_or_create that fails half-way leaves no trace".
//!
//! The driver runs under the LD_PRELOAD shim (harness/sysshim) and (re-)arms it at run time through
//! `iox2_verif_ctl`: for every scenario (operation x state of the service) a dry run counts the K
//! state-changing libc calls of the operation; then, for k = 1..K (all, or a seeded sample) and every
//! errno of `--errnos`, a FRESH isolated domain is set up, the k-th numbered call of the operation is
//! made to fail, and a fixed follow-up program is executed by other nodes (does_exist, a creation with
//! other settings, an open, the drops, a re-creation) with a quiescent observation (existence,
//! listing, files, shm objects, service tags per node) after every call.  Everything is recorded as
//! call/ret/obs events; the verdict is TLC's (ServiceAbsTrace.tla): a call that returns an error has
//! NO effect on the abstract service, a call that panics is unexplainable.
//!
//! Events are written and flushed one by one: if the process dies inside the library (abort, signal)
//! the check completes the last call with the result "Abort" and restarts behind it (`--resume`).

use crate::cfgs::cfg_set;
use crate::ops::{Actor, SLOTS, does_exist, node_ids, observe};
use crate::pats::Pat;
use crate::util::{self, Shared};
use iceoryx2::prelude::*;
use vlib::rng::Rng;
use vlib::trace::TraceWriter;
use vlib::{Args, Value, json};

/// Run-time control of the shim (None: the process does not run under it).
#[derive(Clone, Copy)]
pub struct Shim {
    f: unsafe extern "C" fn(i32, libc::c_long, libc::c_long) -> libc::c_long,
}

impl Shim {
    pub fn get() -> Option<Shim> {
        let p = unsafe { libc::dlsym(libc::RTLD_DEFAULT, c"iox2_verif_ctl".as_ptr()) };
        if p.is_null() {
            None
        } else {
            Some(Shim { f: unsafe { core::mem::transmute::<*mut libc::c_void, unsafe extern "C" fn(i32, libc::c_long, libc::c_long) -> libc::c_long>(p) } })
        }
    }
    pub fn require() -> Shim {
        Shim::get().unwrap_or_else(|| {
            eprintln!("drv-service: this mode needs the sysshim (LD_PRELOAD) with iox2_verif_ctl");
            std::process::exit(2)
        })
    }
    pub fn count(&self) -> i64 {
        unsafe { (self.f)(0, 0, 0) as i64 }
    }
    pub fn arm(&self, rel: i64, errno: i64) {
        unsafe { (self.f)(1, rel as libc::c_long, errno as libc::c_long) };
    }
    pub fn disarm(&self) -> i64 {
        unsafe { (self.f)(3, 0, 0) as i64 }
    }
    pub fn last_fault(&self) -> (i64, String) {
        let mut buf = [0u8; 400];
        let n = unsafe { (self.f)(4, buf.as_mut_ptr() as libc::c_long, buf.len() as libc::c_long) as i64 };
        let len = buf.iter().position(|b| *b == 0).unwrap_or(buf.len());
        (n, String::from_utf8_lossy(&buf[..len]).to_string())
    }
}

/// Writes the events of one run immediately (stamped, incarnation ids mapped to small indices).
pub struct Emitter<'a> {
    pub out: &'a mut TraceWriter,
    pub sh: &'a Shared,
    ids: Vec<String>,
    /// keep the raw incarnation id (`uid`): the check maps the ids of a multi-process history
    pub raw_uid: bool,
}

impl<'a> Emitter<'a> {
    pub fn new(out: &'a mut TraceWriter, sh: &'a Shared) -> Self {
        Emitter { out, sh, ids: vec![], raw_uid: false }
    }
    pub fn reset(&mut self, rec: Value) {
        self.ids.clear();
        self.put(rec);
    }
    pub fn put(&mut self, mut ev: Value) {
        let g = self.sh.stamp();
        let o = ev.as_object_mut().unwrap();
        if o.get("k").and_then(|k| k.as_str()) != Some("reset") {
            o.insert("g".into(), json!(g));
        }
        if self.raw_uid {
            // nothing to map
        } else if let Some(uid) = o.remove("uid") {
            let uid = uid.as_str().unwrap().to_string();
            let id = if uid.is_empty() {
                0
            } else {
                match self.ids.iter().position(|x| *x == uid) {
                    Some(i) => i + 1,
                    None => {
                        self.ids.push(uid);
                        self.ids.len()
                    }
                }
            };
            o.insert("id".into(), json!(id));
        }
        self.out.emit(&ev);
        self.out.flush();
    }
}

#[derive(Clone, Copy, PartialEq)]
pub enum Kind {
    Create,
    Open,
    Ooc,
    Drop,
    Exist,
}

impl Kind {
    pub fn name(self) -> &'static str {
        match self {
            Kind::Create => "create",
            Kind::Open => "open",
            Kind::Ooc => "ooc",
            Kind::Drop => "drop",
            Kind::Exist => "exist",
        }
    }
}

pub struct CallCtx<'a, 'b, P: Pat> {
    pub em: &'a mut Emitter<'b>,
    pub name: &'a ServiceName,
    pub cfgs: &'a [Value],
    pub config: &'a iceoryx2::config::Config,
    pub counts: &'a mut std::collections::BTreeMap<String, u64>,
    pub calls: &'a mut u64,
    pub _p: core::marker::PhantomData<P>,
}

/// One recorded call of thread `t` (= node index of the actor).  `arm` = Some((shim, k, errno)): the k-th
/// numbered libc call of THIS call fails.  Returns (result, faults injected); "Panic" if the call panicked.
pub fn call<P: Pat>(
    cx: &mut CallCtx<P>,
    actor: &mut Actor<P>,
    kind: Kind,
    c: usize,
    slot: usize,
    arm: Option<(Shim, i64, i64)>,
) -> (String, i64) {
    let t = actor.nd;
    let a = kind.name();
    let h = if kind == Kind::Exist { 0 } else { actor.handle_no(slot) };
    cx.em.put(json!({"k":"call","t":t,"a":a,"nd":actor.nd,"c":c,"h":h}));
    if let Some((shim, k, errno)) = arm {
        shim.arm(k, errno);
    }
    let res = std::panic::catch_unwind(std::panic::AssertUnwindSafe(|| -> (String, String, Value, u64) {
        match kind {
            Kind::Create | Kind::Open | Kind::Ooc => {
                let cfg = &cx.cfgs[c - 1];
                let res = match kind {
                    Kind::Create => P::create(&actor.node, cx.name, cfg),
                    Kind::Open => P::open(&actor.node, cx.name, cfg),
                    _ => P::ooc(&actor.node, cx.name, cfg),
                };
                match res {
                    Ok(hd) => {
                        let seen = P::seen(&hd);
                        actor.slots[slot] = Some(hd);
                        ("Ok".to_string(), seen.uid, seen.s, 0)
                    }
                    Err(e) => (e, String::new(), json!({}), 0),
                }
            }
            Kind::Drop => {
                let hd = actor.slots[slot].take().expect("drop of an empty slot");
                drop(hd);
                ("Ok".to_string(), String::new(), json!({}), 0)
            }
            Kind::Exist => match does_exist::<P>(cx.name, cx.config) {
                Ok(b) => ("Ok".to_string(), String::new(), json!({}), b as u64),
                Err(e) => (e, String::new(), json!({}), 0),
            },
        }
    }));
    let mut faults = 0;
    if let Some((shim, _, _)) = arm {
        faults = shim.disarm();
        if faults > 0 {
            let (n, info) = shim.last_fault();
            let mut it = info.splitn(3, ' ');
            let (fc, fe, fp) = (it.next().unwrap_or(""), it.next().unwrap_or("0"), it.next().unwrap_or(""));
            let fp = fp.rsplit('/').next().unwrap_or("");
            cx.em.put(json!({"k":"fault","t":t,"n":n,"call":fc,"errno":fe.parse::<i64>().unwrap_or(0),"obj":fp}));
        }
    }
    let (r, uid, s, v) = match res {
        Ok(x) => x,
        Err(_) => ("Panic".to_string(), String::new(), json!({}), 0),
    };
    cx.em.put(json!({"k":"ret","t":t,"a":a,"r":r,"uid":uid,"s":s,"v":v,"h":h,"f":faults}));
    *cx.calls += 1;
    *cx.counts.entry(format!("{a}:{r}")).or_default() += 1;
    (r, faults)
}

#[derive(Clone, Copy)]
struct Scenario {
    /// creator record used by the (faulty) call instead of record 1 (0 = default); 6 = FlatBuffers without schema
    cfg: usize,
    /// no fault positions: the call fails on its own
    dry_only: bool,
    name: &'static str,
    pre_create: bool,   // node 1 holds the service (created with record 1)
    pre_open: bool,     // node 0 already holds a handle of it (slot 0)
    kind: Kind,
    creator_cfg: bool,  // the faulty call uses creator record 1 (else the plain opener record)
    needs_ooc: bool,
}

const SCENARIOS: &[Scenario] = &[
    Scenario { cfg: 0, dry_only: false, name: "create@absent", pre_create: false, pre_open: false, kind: Kind::Create, creator_cfg: true, needs_ooc: false },
    Scenario { cfg: 0, dry_only: false, name: "open@exists", pre_create: true, pre_open: false, kind: Kind::Open, creator_cfg: false, needs_ooc: false },
    Scenario { cfg: 0, dry_only: false, name: "ooc@absent", pre_create: false, pre_open: false, kind: Kind::Ooc, creator_cfg: true, needs_ooc: true },
    Scenario { cfg: 0, dry_only: false, name: "ooc@exists", pre_create: true, pre_open: false, kind: Kind::Ooc, creator_cfg: true, needs_ooc: true },
    Scenario { cfg: 0, dry_only: false, name: "open2@exists", pre_create: true, pre_open: true, kind: Kind::Open, creator_cfg: false, needs_ooc: false },
    Scenario { cfg: 0, dry_only: false, name: "create@exists", pre_create: true, pre_open: false, kind: Kind::Create, creator_cfg: true, needs_ooc: false },
    Scenario { cfg: 6, dry_only: true, name: "createfb@absent", pre_create: false, pre_open: false, kind: Kind::Create, creator_cfg: true, needs_ooc: false },
    Scenario { cfg: 0, dry_only: false, name: "open@absent", pre_create: false, pre_open: false, kind: Kind::Open, creator_cfg: false, needs_ooc: false },
];

struct State<'a> {
    shim: Shim,
    root: String,
    tag: String,
    timeout: u64,
    out: &'a mut TraceWriter,
    sh: &'a Shared,
    counts: std::collections::BTreeMap<String, u64>,
    fault_results: std::collections::BTreeMap<String, u64>,
    calls: u64,
    runs: u64,
    injected: u64,
    dom: u64,
}

/// One run: fresh domain, pre-state, the (faulty) call, follow-up.  Returns (result of the faulty call,
/// faults injected, numbered libc calls of the faulty call).
fn one_run<P: Pat>(st: &mut State, si: usize, sc: &Scenario, k: i64, ei: usize, errno: i64) -> (String, i64, i64) {
    let name: ServiceName = "c06/svc".try_into().unwrap();
    let set = cfg_set(P::NAME, false);
    let plain = set.plain_opener;
    st.dom += 1;
    let config = util::make_config(
        &format!("{}/f{}{}_{}", st.root, P::NAME, st.tag, st.dom),
        &format!("c6{}f{}{}_", st.tag, P::NAME, st.dom),
        st.timeout,
    );
    let dflt = P::defaults(&config);
    st.sh.reset();
    let mut em = Emitter::new(st.out, st.sh);
    em.reset(json!({"k":"reset","mode":"fault","pat":P::NAME,"threads":3,"cfgs":set.cfgs,"dflt":dflt,
                    "scenario":sc.name,"si":si,"pos":k,"ei":ei,"errno":errno}));
    st.runs += 1;
    let (r, f, ncalls);
    {
        let mut actors: Vec<Actor<P>> = (0..3).map(|i| Actor::new(&config, i)).collect();
        let ids = node_ids(&actors);
        let mut cx = CallCtx::<P> {
            em: &mut em,
            name: &name,
            cfgs: &set.cfgs,
            config: &config,
            counts: &mut st.counts,
            calls: &mut st.calls,
            _p: core::marker::PhantomData,
        };
        macro_rules! obs {
            () => {
                cx.em.put(observe::<P>("obs", &name, &config, true, 0, &ids))
            };
        }
        // ---- the state before the faulty call
        if sc.pre_create {
            call::<P>(&mut cx, &mut actors[1], Kind::Create, 1, 0, None);
        }
        if sc.pre_open {
            call::<P>(&mut cx, &mut actors[0], Kind::Open, plain, 0, None);
        }
        obs!();
        // ---- the faulty call (node 0)
        let slot = if sc.pre_open { 1 } else { 0 };
        let c = if sc.cfg > 0 { sc.cfg } else if sc.creator_cfg { 1 } else { plain };
        let n0 = st.shim.count();
        let arm = if k > 0 { Some((st.shim, k, errno)) } else { None };
        let (r_, f_) = call::<P>(&mut cx, &mut actors[0], sc.kind, c, slot, arm);
        ncalls = st.shim.count() - n0;
        r = r_;
        f = f_;
        if f > 0 {
            st.injected += 1;
            *st.fault_results.entry(format!("{}:{}", sc.kind.name(), r)).or_default() += 1;
        }
        if r == "Panic" {
            // the library panicked: its process-local state is not trustworthy any more; the recorded
            // history ends here (unexplainable), the enumeration continues in a new process
            core::mem::forget(actors);
            return (r, f, ncalls);
        }
        obs!();
        // ---- follow-up by the other nodes
        call::<P>(&mut cx, &mut actors[2], Kind::Exist, 0, 0, None);
        call::<P>(&mut cx, &mut actors[2], Kind::Create, 2, 0, None);
        obs!();
        call::<P>(&mut cx, &mut actors[2], Kind::Open, plain, 1, None);
        obs!();
        for a in [0usize, 2, 1] {
            for slot in (0..SLOTS).rev() {
                if actors[a].slots[slot].is_some() {
                    call::<P>(&mut cx, &mut actors[a], Kind::Drop, 0, slot, None);
                    obs!();
                }
            }
        }
        // re-creation after the last user is gone
        let (r2, _) = call::<P>(&mut cx, &mut actors[2], Kind::Create, 1, 0, None);
        obs!();
        if r2 == "Ok" {
            call::<P>(&mut cx, &mut actors[2], Kind::Drop, 0, 0, None);
            obs!();
        }
    }
    em.put(observe::<P>("end", &name, &config, false, 0, &[]));
    util::cleanup_domain(&config);
    (r, f, ncalls)
}

pub fn run<P: Pat>(args: &Args) -> Value {
    let shim = Shim::require();
    let root = args.get("root").expect("--root");
    let sample = args.num("sample", 0) as usize; // 0 = every position
    let errnos: Vec<i64> = args.get_or("errnos", "0").split(',').map(|x| x.parse().expect("--errnos")).collect();
    let only = args.get("scenario");
    let skip: Vec<usize> = args.get_or("skip", "").split(',').filter(|x| !x.is_empty()).map(|x| x.parse().expect("--skip")).collect();
    // exclusive resume point "scenario,position,errno-index"
    let resume: Option<(usize, i64, usize)> = args.get("resume").map(|r| {
        let v: Vec<i64> = r.split(',').map(|x| x.parse().expect("--resume")).collect();
        (v[0] as usize, v[1], v[2] as usize)
    });
    // the number of calls of scenarios measured by an earlier part of a resumed enumeration ("si:K,si:K")
    let mut known_k: std::collections::BTreeMap<usize, i64> = args
        .get_or("known", "")
        .split(',')
        .filter(|x| !x.is_empty())
        .map(|x| {
            let (a, b) = x.split_once(':').expect("--known");
            (a.parse().unwrap(), b.parse().unwrap())
        })
        .collect();
    let seed = vlib::seed_from_env();
    let mut out = TraceWriter::create(&args.get("out").expect("--out"));
    let tag = util::run_token(args);
    let sh = Shared::open(&format!("{root}/fault-{}-{tag}.shared", P::NAME), true);
    let mut st = State {
        shim,
        root,
        tag,
        timeout: args.num("timeout", 20_000),
        out: &mut out,
        sh: &sh,
        counts: Default::default(),
        fault_results: Default::default(),
        calls: 0,
        runs: 0,
        injected: 0,
        dom: 0,
    };
    let mut positions = vec![];
    let summary = |st: &State, positions: &Vec<Value>, known_k: &std::collections::BTreeMap<usize, i64>, died: Option<(usize, i64, usize)>| {
        let mut v = json!({"mode":"fault","pat":P::NAME,"runs":st.runs,"calls":st.calls,"injected":st.injected,
               "results":st.counts,"fault_results":st.fault_results,"positions":positions,"seed":seed,
               "known":known_k.iter().map(|(a,b)| format!("{a}:{b}")).collect::<Vec<_>>().join(",")});
        if let Some((si, k, ei)) = died {
            v["died"] = json!(format!("{si},{k},{ei}"));
        }
        v
    };

    for (si, sc) in SCENARIOS.iter().enumerate() {
        if sc.needs_ooc && !P::HAS_OOC {
            continue;
        }
        if sc.cfg > cfg_set(P::NAME, false).cfgs.len() {
            continue;
        }
        if let Some(o) = &only {
            if o != sc.name {
                continue;
            }
        }
        if let Some((rs, _, _)) = resume {
            if si < rs {
                continue;
            }
        }
        if skip.contains(&si) {
            continue;
        }
        let kk = match known_k.get(&si) {
            Some(k) => *k,
            None => {
                // dry run: a fault-free history that measures the number of numbered calls
                let (r, _, n) = one_run::<P>(&mut st, si, sc, 0, 0, 0);
                known_k.insert(si, n);
                if r == "Panic" {
                    st.out.flush();
                    println!("{}", summary(&st, &positions, &known_k, Some((si, 0, 0))));
                    std::process::exit(4);
                }
                n
            }
        };
        positions.push(json!({"scenario": sc.name, "si": si, "calls": kk}));
        // the positions of this scenario: all, or a seeded sample (independent of a resume)
        let mut ks: Vec<i64> = if sc.dry_only { vec![] } else { (1..=kk).collect() };
        if sample > 0 && ks.len() > sample {
            let mut rng = Rng::new(seed ^ 0xFA17_0000 ^ ((P::NAME.as_bytes()[0] as u64) << 8) ^ ((si as u64) << 20));
            let mut pick = vec![];
            for _ in 0..sample {
                let i = rng.below(ks.len() as u64) as usize;
                pick.push(ks.remove(i));
            }
            pick.sort();
            ks = pick;
        }
        for k in ks {
            for (ei, errno) in errnos.iter().enumerate() {
                if let Some((rs, rk, re)) = resume {
                    if si == rs && (k, ei) <= (rk, re) {
                        continue;
                    }
                }
                let (r, _, _) = one_run::<P>(&mut st, si, sc, k, ei, *errno);
                if r == "Panic" {
                    st.out.flush();
                    println!("{}", summary(&st, &positions, &known_k, Some((si, k, ei))));
                    std::process::exit(4);
                }
            }
        }
    }
    st.out.flush();
    let mut v = summary(&st, &positions, &known_k, None);
    v["lines"] = json!(st.out.lines);
    v
}
