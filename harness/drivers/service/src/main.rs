//! Conformance driver of C06 (service creation is atomic, lifetime follows the users).
//!   drv-service seq    --pat ps|ev|rr|bb --root DIR --runs N --len L --nodes K --out trace.ndjson
//!   drv-service conc   --pat P --root DIR --threads T --iters I --runs N [--procs] --out trace.ndjson
//!   drv-service matrix --pat P --root DIR --pairs pairs.ndjson --out results.ndjson
//!   drv-service fault  --pat P --root DIR [--sample K] [--errnos 0,24] --out trace.ndjson   (under the sysshim)
//!   drv-service victim | opener ...                                                      (crashed creator, see crash.rs)
//! All iceoryx2 objects live in isolated domains (own global.prefix and root path below DIR).

extern crate iceoryx2_bb_loggers;

mod cfgs;
mod conc;
mod crash;
mod fault;
mod matrix;
mod ops;
mod pats;
mod schedmode;
mod seq;
mod steps;
mod util;

use pats::{Bb, Ev, Ps, Rr};

macro_rules! by_pat {
    ($pat:expr, $m:ident, $f:ident, $args:expr) => {
        match $pat.as_str() {
            "ps" => $m::$f::<Ps>($args),
            "ev" => $m::$f::<Ev>($args),
            "rr" => $m::$f::<Rr>($args),
            "bb" => $m::$f::<Bb>($args),
            p => panic!("unknown pattern {p}"),
        }
    };
}

fn main() {
    let args = vlib::Args::from_env();
    let pat = args.get_or("pat", "ps");
    iceoryx2::prelude::set_log_level_from_env_or(iceoryx2::prelude::LogLevel::Fatal);
    let summary = match args.positional(0).as_deref() {
        Some("seq") => by_pat!(pat, seq, run, &args),
        Some("conc") => by_pat!(pat, conc, run, &args),
        Some("sched") => by_pat!(pat, schedmode, run, &args),
        Some("steps") => by_pat!(pat, steps, run, &args),
        Some("fault") => by_pat!(pat, fault, run, &args),
        Some("victim") => {
            by_pat!(pat, crash, victim, &args);
            return;
        }
        Some("opener") => {
            by_pat!(pat, crash, opener, &args);
            return;
        }
        Some("matrix") => by_pat!(pat, matrix, run, &args),
        Some("defaults") => {
            let c = util::make_config(&args.get_or("root", "/tmp/c06-defaults"), "c6d_", 1000);
            by_pat!(pat, pats, defaults_of, &c)
        }
        Some("conc-child") => {
            by_pat!(pat, conc, child, &args);
            return;
        }
        other => {
            eprintln!("unknown sub-command {other:?}");
            std::process::exit(2);
        }
    };
    println!("{summary}");
}
