//! Shared by the three pattern worlds: error table, payload canaries, digests, domain listing.

use crate::capi::Er;
use std::collections::{BTreeMap, HashMap};
use vlib::{Value, json};

/// The error mapping table dumped by drv-ffitab (the same file TLC checks with spec/data/FfiTable.tla).
/// The C front end translates every returned int through it; the Rust front end canonicalises the Debug
/// text of its error values to the same variant labels.
#[derive(Default)]
pub struct Table {
    by_code: HashMap<(String, i64), Vec<String>>,
    labels: HashMap<String, Vec<String>>,
}

impl Table {
    pub fn load(path: &str) -> Table {
        let mut t = Table::default();
        for r in vlib::trace::read_ndjson(path) {
            if r["k"] == "row" && r["st"] == "ok" {
                let e = r["enum"].as_str().unwrap().to_string();
                let v = r["variant"].as_str().unwrap().to_string();
                t.by_code.entry((e.clone(), r["code"].as_i64().unwrap())).or_default().push(v.clone());
                t.labels.entry(e).or_default().push(v);
            }
        }
        t
    }

    /// variant label of an error as seen by a front end
    pub fn label(&self, e: &Er) -> String {
        match e {
            Er::R(s) => s.clone(),
            Er::C(en, code) => match self.by_code.get(&(en.to_string(), *code as i64)) {
                // a code shared by several variants names all of them
                Some(v) => v.join("|"),
                None => format!("@{en}:{code}"),
            },
        }
    }

    /// Rust side: Debug text of an error value of enum `en` -> table label (payloads the C enum does not
    /// distinguish are stripped)
    pub fn canon(&self, en: &str, dbg: &str) -> String {
        let Some(labels) = self.labels.get(en) else { return dbg.to_string() };
        let mut s = dbg.to_string();
        loop {
            if labels.iter().any(|l| *l == s) {
                return s;
            }
            // strip the innermost parenthesised group
            let Some(close) = s.find(')') else { return dbg.to_string() };
            let Some(open) = s[..close].rfind('(') else { return dbg.to_string() };
            s = format!("{}{}", &s[..open], &s[close + 1..]);
        }
    }

    pub fn rust<E: core::fmt::Debug>(&self, en: &str, e: E) -> String {
        self.canon(en, &format!("{e:?}"))
    }
}

// ---------------------------------------------------------------------------------------------
// payloads

#[derive(Clone, Debug)]
pub struct PayloadSpec {
    /// u64 | slice | custom | cslice
    pub kind: String,
    pub size: usize,
    pub align: usize,
}

impl PayloadSpec {
    pub fn parse(s: &str) -> PayloadSpec {
        let p: Vec<&str> = s.split(':').collect();
        let n = |i: usize, d: usize| p.get(i).and_then(|x| x.parse().ok()).unwrap_or(d);
        match p[0] {
            "u64" => PayloadSpec { kind: "u64".into(), size: 8, align: 8 },
            "slice" => PayloadSpec { kind: "slice".into(), size: 1, align: 1 },
            "custom" => PayloadSpec { kind: "custom".into(), size: n(1, 8), align: n(2, 8) },
            "cslice" => PayloadSpec { kind: "cslice".into(), size: n(1, 4), align: n(2, 4) },
            other => panic!("unknown payload kind {other}"),
        }
    }
    pub fn dynamic(&self) -> bool {
        self.kind == "slice" || self.kind == "cslice"
    }
    pub fn type_name(&self) -> String {
        match self.kind.as_str() {
            "u64" => "u64".into(),
            "slice" => "u8".into(),
            "custom" => format!("VerifCustom{}a{}", self.size, self.align),
            _ => format!("VerifElem{}a{}", self.size, self.align),
        }
    }
    pub fn max_elems(&self) -> usize {
        match self.kind.as_str() {
            "slice" => 24,
            "cslice" => 3,
            _ => 1,
        }
    }
    /// (number of elements, number of bytes) of the sample with this id
    pub fn shape(&self, id: u64) -> (usize, usize) {
        match self.kind.as_str() {
            "slice" => {
                let n = 8 + ((id * 5) % 17) as usize;
                (n, n)
            }
            "cslice" => {
                let n = 1 + (id % 3) as usize;
                (n, n * self.size)
            }
            _ => (1, self.size),
        }
    }
}

/// canary: every payload is a function of (id, length); the id is readable from the first bytes
pub fn fill(id: u64, len: usize) -> Vec<u8> {
    (0..len)
        .map(|i| {
            if i < 8 {
                (id >> (8 * i)) as u8
            } else {
                (id.wrapping_mul(31).wrapping_add(i as u64 * 7) & 0xFF) as u8
            }
        })
        .collect()
}

/// (decoded id, bytes equal the canary of that id)
pub fn decode(bytes: &[u8]) -> (u64, bool) {
    let mut id = 0u64;
    for (i, b) in bytes.iter().take(8).enumerate() {
        id |= (*b as u64) << (8 * i);
    }
    (id, !bytes.is_empty() && bytes == fill(id, bytes.len()).as_slice())
}

/// FNV-1a, folded to 31 bits (integers in traces stay below 2^31)
pub fn digest(bytes: &[u8]) -> u64 {
    let mut h: u64 = 0xcbf2_9ce4_8422_2325;
    for b in bytes {
        h ^= *b as u64;
        h = h.wrapping_mul(0x0100_0000_01b3);
    }
    (h ^ (h >> 31)) & 0x7fff_ffff
}

pub fn ev(a: &str, api: &str, fields: Value) -> Value {
    let mut m = serde_json::Map::new();
    m.insert("k".into(), json!("op"));
    m.insert("a".into(), json!(a));
    m.insert("api".into(), json!(api));
    if let Value::Object(f) = fields {
        for (k, v) in f {
            m.insert(k, v);
        }
    }
    Value::Object(m)
}

// ---------------------------------------------------------------------------------------------
// isolated domain: listing of what exists (root directory + /dev/shm entries with the prefix)

pub struct Domain {
    pub root: String,
    pub prefix: String,
}

impl Domain {
    pub fn new(work: &str, tag: &str) -> Domain {
        let root = format!("{work}/iox-{tag}");
        std::fs::create_dir_all(&root).expect("create root path");
        Domain { root, prefix: format!("vf{tag}_") }
    }

    /// normalised names of everything that exists in the domain: digits/hex runs that stem from unique ids
    /// are replaced, so that listings of two runs are comparable
    pub fn listing(&self) -> Vec<String> {
        let mut out = Vec::new();
        let mut stack = vec![std::path::PathBuf::from(&self.root)];
        while let Some(d) = stack.pop() {
            if let Ok(rd) = std::fs::read_dir(&d) {
                for e in rd.flatten() {
                    let p = e.path();
                    let rel = p.strip_prefix(&self.root).unwrap_or(&p).to_string_lossy().to_string();
                    if p.is_dir() {
                        out.push(format!("dir:{}", self.normalise(&rel)));
                        stack.push(p);
                    } else {
                        out.push(format!("file:{}", self.normalise(&rel)));
                    }
                }
            }
        }
        if let Ok(rd) = std::fs::read_dir("/dev/shm") {
            for e in rd.flatten() {
                let n = e.file_name().to_string_lossy().to_string();
                if n.starts_with(&self.prefix) {
                    out.push(format!("shm:{}", self.normalise(&n)));
                }
            }
        }
        out.sort();
        out
    }

    fn normalise(&self, s: &str) -> String {
        let s = s.replace(&self.prefix, "P_");
        let mut out = String::new();
        let mut run = String::new();
        let flush = |run: &mut String, out: &mut String| {
            if run.len() >= 6 && run.chars().all(|c| c.is_ascii_hexdigit()) {
                out.push('#');
            } else {
                out.push_str(run);
            }
            run.clear();
        };
        for c in s.chars() {
            if c.is_ascii_alphanumeric() {
                run.push(c);
            } else {
                flush(&mut run, &mut out);
                out.push(c);
            }
        }
        flush(&mut run, &mut out);
        out
    }

    pub fn cleanup(&self) {
        let _ = std::fs::remove_dir_all(&self.root);
        if let Ok(rd) = std::fs::read_dir("/dev/shm") {
            for e in rd.flatten() {
                if e.file_name().to_string_lossy().starts_with(&self.prefix) {
                    let _ = std::fs::remove_file(e.path());
                }
            }
        }
    }
}

/// per action kind and API: how often it was exercised (vacuity guard of the check)
#[derive(Default)]
pub struct Summary {
    pub runs: u64,
    pub panics: u64,
    pub counts: BTreeMap<String, u64>,
    /// per job: heap blocks / bytes that were allocated during the job and are still alive after everything of the
    /// job was dropped and its domain cleaned up (counting global allocator of this driver)
    pub heap: Vec<(i64, i64)>,
}

impl Summary {
    pub fn count(&mut self, e: &Value) {
        let a = e["a"].as_str().unwrap_or("?");
        let api = e["api"].as_str().unwrap_or("-");
        let r = match e.get("r").and_then(|r| r.as_str()) {
            Some("ok") | Some("some") | Some("none") | Some("true") | Some("false") | None => e.get("r").and_then(|r| r.as_str()).unwrap_or(""),
            Some(_) => "err",
        };
        let key = if r.is_empty() { format!("{api}:{a}") } else { format!("{api}:{a}:{r}") };
        *self.counts.entry(key).or_insert(0) += 1;
    }
    pub fn to_json(&self, lines: u64) -> Value {
        json!({"runs": self.runs, "panics": self.panics, "events": lines, "counts": self.counts,
               "heap": self.heap.iter().map(|(b, y)| json!([b, y])).collect::<Vec<_>>()})
    }
}
