//! Events through both front ends.  Record format of harness/drivers/event (spec/lockfree/EventObsTrace.tla):
//! `call` / `ret` pairs of `notify` (t = notifier index, id, r) and `wait` (rep = [[id, count], ...]); port
//! creation / drop are `aux` records (ignored by the event specification, compared between the front ends).
//! One listener lives for the whole run (created first, dropped last), so that every successful notify has
//! a listener that must report it.

use core::ffi::c_void;
use std::collections::BTreeMap;
use std::panic::{AssertUnwindSafe, catch_unwind};
use std::sync::Arc;

use iceoryx2::port::listener::Listener;
use iceoryx2::port::notifier::Notifier;
use iceoryx2::prelude::*;
use iceoryx2::service::port_factory::event::PortFactory as EvFactoryR;
use iceoryx2_ffi_c::*;
use vlib::trace::TraceWriter;
use vlib::{Value, json};

use crate::capi::{CNode, Er, rc};
use crate::common::{Domain, Summary, Table};

const LISTENER_T: u64 = 15;

#[derive(Clone, Debug)]
pub struct Cfg {
    pub variant: String,
    pub maxid: usize,
    pub max_notifiers: usize,
    pub max_listeners: usize,
}

impl Cfg {
    fn from_json(v: &Value) -> Cfg {
        let n = |k: &str, d: u64| v[k].as_u64().unwrap_or(d) as usize;
        Cfg {
            variant: v["variant"].as_str().unwrap_or("ipc").to_string(),
            maxid: n("maxid", 7),
            max_notifiers: n("max_notifiers", 3),
            max_listeners: n("max_listeners", 1),
        }
    }
}

pub trait EvFactory {
    fn notifier(&self) -> Result<Box<dyn NotifierPort>, Er>;
    fn listener(&self) -> Result<Box<dyn ListenerPort>, Er>;
}
pub trait NotifierPort {
    fn notify(&self, id: usize) -> Result<usize, Er>;
}
pub trait ListenerPort {
    /// (number of notifications, [(id, count)])
    fn wait(&self, kind: &str) -> Result<(u64, Vec<(u64, u64)>), Er>;
}

// ---- Rust front end ----------------------------------------------------------------------------

struct RFac<S: Service> {
    f: EvFactoryR<S>,
    t: Arc<Table>,
}
struct RNot<S: Service> {
    n: Notifier<S>,
    t: Arc<Table>,
}
struct RLis<S: Service> {
    l: Listener<S>,
    t: Arc<Table>,
}

fn rust_service<S: Service>(node: &Node<S>, name: &ServiceName, c: &Cfg, open: bool, t: &Table) -> Result<EvFactoryR<S>, Er> {
    let b = node
        .service_builder(name)
        .event()
        .max_notifiers(c.max_notifiers)
        .max_listeners(c.max_listeners)
        .event_id_max_value(c.maxid);
    if open {
        b.open().map_err(|e| Er::R(t.rust("EventOpenError", e)))
    } else {
        b.create().map_err(|e| Er::R(t.rust("EventCreateError", e)))
    }
}

impl<S: Service + 'static> EvFactory for RFac<S> {
    fn notifier(&self) -> Result<Box<dyn NotifierPort>, Er> {
        match self.f.notifier_builder().create() {
            Ok(n) => Ok(Box::new(RNot { n, t: self.t.clone() })),
            Err(e) => Err(Er::R(self.t.rust("NotifierCreateError", e))),
        }
    }
    fn listener(&self) -> Result<Box<dyn ListenerPort>, Er> {
        match self.f.listener_builder().create() {
            Ok(l) => Ok(Box::new(RLis { l, t: self.t.clone() })),
            Err(e) => Err(Er::R(self.t.rust("ListenerCreateError", e))),
        }
    }
}
impl<S: Service> NotifierPort for RNot<S> {
    fn notify(&self, id: usize) -> Result<usize, Er> {
        self.n.notify_with_custom_event_id(EventId::new(id)).map_err(|e| Er::R(self.t.rust("NotifierNotifyError", e)))
    }
}
impl<S: Service> ListenerPort for RLis<S> {
    fn wait(&self, kind: &str) -> Result<(u64, Vec<(u64, u64)>), Er> {
        let mut rep = Vec::new();
        let cb = |a: iceoryx2::port::EventActivation| rep.push((a.id.as_value() as u64, a.count));
        let r = match kind {
            "timed" => self.l.timed_wait(cb, core::time::Duration::from_millis(1)),
            _ => self.l.try_wait(cb),
        };
        match r {
            Ok(n) => Ok((n, rep)),
            Err(e) => Err(Er::R(self.t.rust("ListenerWaitError", e))),
        }
    }
}

// ---- C front end -------------------------------------------------------------------------------

struct CFac {
    h: iox2_port_factory_event_h,
}
struct CNot {
    h: iox2_notifier_h,
}
struct CLis {
    h: iox2_listener_h,
}

fn c_service(node: &CNode, name: &str, c: &Cfg, open: bool) -> Result<Box<dyn EvFactory>, Er> {
    unsafe {
        let sb = node.service_builder(name)?;
        let b = iox2_service_builder_event(sb);
        iox2_service_builder_event_set_max_notifiers(&b, c.max_notifiers);
        iox2_service_builder_event_set_max_listeners(&b, c.max_listeners);
        iox2_service_builder_event_set_event_id_max_value(&b, c.maxid);
        let mut h: iox2_port_factory_event_h = core::ptr::null_mut();
        if open {
            rc("EventOpenError", iox2_service_builder_event_open(b, core::ptr::null_mut(), &mut h))?;
        } else {
            rc("EventCreateError", iox2_service_builder_event_create(b, core::ptr::null_mut(), &mut h))?;
        }
        Ok(Box::new(CFac { h }))
    }
}

impl Drop for CFac {
    fn drop(&mut self) {
        unsafe { iox2_port_factory_event_drop(self.h) }
    }
}
impl EvFactory for CFac {
    fn notifier(&self) -> Result<Box<dyn NotifierPort>, Er> {
        unsafe {
            let b = iox2_port_factory_event_notifier_builder(&self.h, core::ptr::null_mut());
            let mut h: iox2_notifier_h = core::ptr::null_mut();
            rc("NotifierCreateError", iox2_port_factory_notifier_builder_create(b, core::ptr::null_mut(), &mut h))?;
            Ok(Box::new(CNot { h }))
        }
    }
    fn listener(&self) -> Result<Box<dyn ListenerPort>, Er> {
        unsafe {
            let b = iox2_port_factory_event_listener_builder(&self.h, core::ptr::null_mut());
            let mut h: iox2_listener_h = core::ptr::null_mut();
            rc("ListenerCreateError", iox2_port_factory_listener_builder_create(b, core::ptr::null_mut(), &mut h))?;
            Ok(Box::new(CLis { h }))
        }
    }
}
impl Drop for CNot {
    fn drop(&mut self) {
        unsafe { iox2_notifier_drop(self.h) }
    }
}
impl NotifierPort for CNot {
    fn notify(&self, id: usize) -> Result<usize, Er> {
        unsafe {
            let ev = iox2_event_id_t { value: id };
            let mut n: usize = 0;
            rc("NotifierNotifyError", iox2_notifier_notify_with_custom_event_id(&self.h, &ev, &mut n))?;
            Ok(n)
        }
    }
}
impl Drop for CLis {
    fn drop(&mut self) {
        unsafe { iox2_listener_drop(self.h) }
    }
}
extern "C" fn c_wait_cb(id: *const iox2_event_id_t, count: u64, ctx: iox2_callback_context) {
    unsafe {
        let rep = &mut *(ctx as *mut Vec<(u64, u64)>);
        rep.push(((*id).value as u64, count));
    }
}
impl ListenerPort for CLis {
    fn wait(&self, kind: &str) -> Result<(u64, Vec<(u64, u64)>), Er> {
        unsafe {
            let mut rep: Vec<(u64, u64)> = Vec::new();
            let ctx = &mut rep as *mut Vec<(u64, u64)> as *mut c_void;
            let mut n: u64 = 0;
            let r = match kind {
                "timed" => iox2_listener_timed_wait(&self.h, &mut n, c_wait_cb, ctx, 0, 1_000_000),
                _ => iox2_listener_try_wait(&self.h, &mut n, c_wait_cb, ctx),
            };
            rc("ListenerWaitError", r)?;
            Ok((n, rep))
        }
    }
}

// ---- world ---------------------------------------------------------------------------------------

fn rust_node<S: Service>(dom: &Domain) -> Node<S> {
    let mut config = Config::default();
    config.global.set_root_path(&Path::new(dom.root.as_bytes()).expect("root path"));
    config.global.prefix = FileName::new(dom.prefix.as_bytes()).expect("prefix");
    NodeBuilder::new().config(&config).create::<S>().expect("rust node")
}

fn api_of(act: &Value) -> &'static str {
    if act["api"].as_str() == Some("c") { "c" } else { "rust" }
}

pub fn run_job<S: Service + 'static>(dom: &Domain, name: &str, job: &Value, table: &Arc<Table>, tw: &mut TraceWriter, summary: &mut Summary) {
    let c = Cfg::from_json(&job["cfg"]);
    let creator = job["creator"].as_str().unwrap_or("rust").to_string();
    let prog: Vec<Value> = job["program"].as_array().cloned().unwrap_or_default();
    let uses = |api: &str| creator == api || prog.iter().any(|a| a["api"].as_str() == Some(api));
    tw.emit(&json!({"k": "reset", "pat": "ev", "variant": c.variant, "maxid": c.maxid, "creator": creator,
                    "mode": job["mode"].as_str().unwrap_or(""), "state": "port", "cap": 0, "failfull": false,
                    "nn": c.max_notifiers}));
    summary.runs += 1;
    let sname = ServiceName::new(name).expect("service name");
    let mut rnode: Option<Node<S>> = None;
    let mut cnode: Option<CNode> = None;
    let mut rfac: Option<Box<dyn EvFactory>> = None;
    let mut cfac: Option<Box<dyn EvFactory>> = None;
    let mut setup_err: Option<String> = None;
    for (i, api) in [creator.as_str(), if creator == "c" { "rust" } else { "c" }].into_iter().enumerate() {
        if !uses(api) || setup_err.is_some() {
            continue;
        }
        let open = i == 1;
        if api == "c" {
            match CNode::new(&dom.root, &dom.prefix, &c.variant).and_then(|n| c_service(&n, name, &c, open).map(|f| (n, f))) {
                Ok((n, f)) => {
                    cnode = Some(n);
                    cfac = Some(f);
                }
                Err(e) => setup_err = Some(format!("c: {}", table.label(&e))),
            }
        } else {
            let node = rust_node::<S>(dom);
            match rust_service(&node, &sname, &c, open, table) {
                Ok(f) => {
                    rfac = Some(Box::new(RFac { f, t: table.clone() }));
                    rnode = Some(node);
                }
                Err(e) => setup_err = Some(format!("rust: {}", table.label(&e))),
            }
        }
    }
    let onode = rust_node::<S>(dom);
    let obs = match rust_service(&onode, &sname, &c, true, table) {
        Ok(o) => Some(o),
        Err(e) => {
            setup_err.get_or_insert(format!("observer: {}", table.label(&e)));
            None
        }
    };
    if let Some(msg) = setup_err {
        tw.emit(&json!({"k": "end", "outcome": "setup-failed", "msg": msg, "dl": [], "listener": LISTENER_T, "left": [],
                        "panics": [msg]}));
        return;
    }
    let obs = obs.unwrap();
    let mut notifiers: BTreeMap<u64, (&'static str, Box<dyn NotifierPort>)> = BTreeMap::new();
    let mut listener: Option<(&'static str, Box<dyn ListenerPort>)> = None;
    let mut panics: Vec<String> = Vec::new();
    let counts = |o: &EvFactoryR<S>| (o.dynamic_config().number_of_notifiers(), o.dynamic_config().number_of_listeners());
    let res = catch_unwind(AssertUnwindSafe(|| {
        for act in &prog {
            let a = act["a"].as_str().unwrap_or("");
            let t = act["t"].as_u64().unwrap_or(0);
            let mut emit = |e: Value, tw: &mut TraceWriter, summary: &mut Summary| {
                if e["k"] != "call" {
                    summary.count(&e);
                }
                tw.emit(&e);
                tw.flush();
            };
            match a {
                "create_listener" => {
                    if listener.is_some() {
                        continue;
                    }
                    let api = api_of(act);
                    let f = if api == "c" { cfac.as_deref() } else { rfac.as_deref() };
                    let Some(f) = f else { continue };
                    let r = match f.listener() {
                        Ok(l) => {
                            listener = Some((api, l));
                            "ok".to_string()
                        }
                        Err(e) => table.label(&e),
                    };
                    let (nn, nl) = counts(&obs);
                    emit(json!({"k": "aux", "a": a, "api": api, "t": LISTENER_T, "r": r, "nn": nn, "nl": nl}), tw, summary);
                }
                "create_notifier" => {
                    if notifiers.contains_key(&t) {
                        continue;
                    }
                    let api = api_of(act);
                    let f = if api == "c" { cfac.as_deref() } else { rfac.as_deref() };
                    let Some(f) = f else { continue };
                    let r = match f.notifier() {
                        Ok(n) => {
                            notifiers.insert(t, (api, n));
                            "ok".to_string()
                        }
                        Err(e) => table.label(&e),
                    };
                    let (nn, nl) = counts(&obs);
                    emit(json!({"k": "aux", "a": a, "api": api, "t": t, "r": r, "nn": nn, "nl": nl}), tw, summary);
                }
                "drop_notifier" => {
                    if let Some((api, n)) = notifiers.remove(&t) {
                        drop(n);
                        let (nn, nl) = counts(&obs);
                        emit(json!({"k": "aux", "a": a, "api": api, "t": t, "r": "ok", "nn": nn, "nl": nl}), tw, summary);
                    }
                }
                "notify" => {
                    if listener.is_none() {
                        continue; // a notification without a listener is nobody's to report
                    }
                    let Some((api, n)) = notifiers.get(&t) else { continue };
                    let id = act["id"].as_u64().unwrap_or(0);
                    emit(json!({"k": "call", "t": t, "a": "notify", "api": api, "id": id, "w": "-", "r": "-", "rep": [], "n": 0}), tw, summary);
                    let (r, cnt) = match n.notify(id as usize) {
                        Ok(cnt) => ("ok".to_string(), cnt),
                        Err(e) => (table.label(&e), 0),
                    };
                    emit(json!({"k": "ret", "t": t, "a": "notify", "api": api, "id": id, "w": "-", "r": r, "rep": [], "n": cnt}), tw, summary);
                }
                "wait" => {
                    let Some((api, l)) = &listener else { continue };
                    let kind = act["w"].as_str().unwrap_or("try");
                    emit(json!({"k": "call", "t": LISTENER_T, "a": "wait", "api": api, "id": 0, "w": kind, "r": "-", "rep": [], "n": 0}), tw, summary);
                    let (r, cnt, mut rep) = match l.wait(kind) {
                        Ok((cnt, rep)) => ("ok".to_string(), cnt, rep),
                        Err(e) => (table.label(&e), 0, Vec::new()),
                    };
                    rep.sort();
                    let rep: Vec<Value> = rep.iter().map(|(i, c)| json!([i, c])).collect();
                    emit(json!({"k": "ret", "t": LISTENER_T, "a": "wait", "api": api, "id": 0, "w": kind, "r": r, "rep": rep, "n": cnt}), tw, summary);
                }
                _ => {}
            }
        }
    }));
    if let Err(p) = res {
        let msg = p.downcast_ref::<String>().cloned().or_else(|| p.downcast_ref::<&str>().map(|s| s.to_string())).unwrap_or_else(|| "panic".into());
        panics.push(msg);
        summary.panics += 1;
    }
    // teardown: notifiers, listener, service handles, nodes (order variants)
    let order = job["order"].as_u64().unwrap_or(0);
    let reg;
    match order {
        1 => {
            rnode = None;
            cnode = None;
            rfac = None;
            cfac = None;
            notifiers.clear();
            if let Some((api, l)) = listener.take() {
                drop(l);
                *summary.counts.entry(format!("{api}:drop_listener")).or_insert(0) += 1;
            }
            reg = counts(&obs);
        }
        _ => {
            notifiers.clear();
            if let Some((api, l)) = listener.take() {
                drop(l);
                *summary.counts.entry(format!("{api}:drop_listener")).or_insert(0) += 1;
            }
            reg = counts(&obs);
            rfac = None;
            cfac = None;
            rnode = None;
            cnode = None;
        }
    }
    let _ = (&rnode, &cnode, &rfac, &cfac);
    drop(obs);
    drop(onode);
    let files = dom.listing();
    let reuse = if creator == "c" {
        match CNode::new(&dom.root, &dom.prefix, &c.variant).and_then(|n| c_service(&n, name, &c, false).map(|f| (n, f))) {
            Ok((n, f)) => {
                drop(f);
                drop(n);
                "ok".to_string()
            }
            Err(e) => table.label(&e),
        }
    } else {
        let n = rust_node::<S>(dom);
        match rust_service(&n, &sname, &c, false, table) {
            Ok(f) => {
                drop(f);
                "ok".to_string()
            }
            Err(e) => table.label(&e),
        }
    };
    *summary.counts.entry(format!("{creator}:teardown")).or_insert(0) += 1;
    tw.emit(&json!({"k": "end", "outcome": "completed", "dl": [], "listener": LISTENER_T, "left": [], "sched": [],
                    "panics": panics, "reg": {"nn": reg.0, "nl": reg.1}, "files": files, "reuse": reuse}));
}
