//! Request-response through both front ends.  Action vocabulary, object naming and record format are those
//! of harness/drivers/reqres (spec/api/ReqResTrace.tla); what the C API cannot observe (channel id, request
//! id stamp) is recorded as -1 and left to TLC.  Additional fields compared between the front ends:
//!   `api`, `rl` (full variant label of an error), `dg`/`len` (payload digest / bytes), `hc`/`hs` (client /
//!   server of the request / response header as small indices), `ncl`/`nsv` (registry counts).

use core::ffi::c_void;
use std::collections::{BTreeMap, HashMap};
use std::panic::{AssertUnwindSafe, catch_unwind};
use std::sync::Arc;

use iceoryx2::active_request::ActiveRequest;
use iceoryx2::pending_response::PendingResponse;
use iceoryx2::port::client::Client;
use iceoryx2::port::server::Server;
use iceoryx2::prelude::*;
use iceoryx2::request_mut::RequestMut;
use iceoryx2::response::Response;
use iceoryx2::response_mut::ResponseMut;
use iceoryx2::service::port_factory::request_response::PortFactory as RrFactoryR;
use iceoryx2_ffi_c::*;
use vlib::trace::TraceWriter;
use vlib::{Value, json};

use crate::capi::{self, CNode, Er, rc};
use crate::common::{Domain, Summary, Table, digest};

pub const MAGIC: u64 = 0x5EC0_DE5A_FE11_0000;

#[repr(C)]
#[derive(Debug, Clone, Copy, PartialEq, Eq, ZeroCopySend)]
#[type_name("VerifReqResMsg")]
pub struct Msg {
    pub magic: u64,
    pub kind: u64, // 1 request, 2 response
    pub c: u64,
    pub n: u64,
    pub s: u64,
    pub j: u64,
    pub chk: u64,
    pub fill: [u64; 9],
}

const MSG_SIZE: usize = core::mem::size_of::<Msg>();

fn mix(kind: u64, c: u64, n: u64, s: u64, j: u64) -> u64 {
    let mut z = MAGIC ^ kind.wrapping_mul(0x9E37_79B9_7F4A_7C15);
    for v in [c, n, s, j] {
        z = (z ^ v).wrapping_mul(0xBF58_476D_1CE4_E5B9);
        z ^= z >> 29;
    }
    z
}

impl Msg {
    pub fn zero() -> Msg {
        Msg { magic: 0, kind: 0, c: 0, n: 0, s: 0, j: 0, chk: 0, fill: [0; 9] }
    }
    pub fn request(c: u64, n: u64) -> Msg {
        Msg::make(1, c, n, 0, 0)
    }
    pub fn response(c: u64, n: u64, s: u64, j: u64) -> Msg {
        Msg::make(2, c, n, s, j)
    }
    fn make(kind: u64, c: u64, n: u64, s: u64, j: u64) -> Msg {
        let chk = mix(kind, c, n, s, j);
        let mut fill = [0u64; 9];
        for (i, f) in fill.iter_mut().enumerate() {
            *f = chk.rotate_left(i as u32 * 7 + 1) ^ (i as u64);
        }
        Msg { magic: MAGIC, kind, c, n, s, j, chk, fill }
    }
    pub fn intact(&self) -> bool {
        *self == Msg::make(self.kind, self.c, self.n, self.s, self.j) && (self.kind == 1 || self.kind == 2)
    }
    pub fn bytes(&self) -> &[u8] {
        unsafe { core::slice::from_raw_parts(self as *const Msg as *const u8, MSG_SIZE) }
    }
    unsafe fn from_ptr(p: *const c_void) -> Msg {
        unsafe { core::ptr::read_unaligned(p as *const Msg) }
    }
}

#[derive(Clone, Debug)]
pub struct Cfg {
    pub svc: String,
    pub nc: u64,
    pub ns: u64,
    pub ma: u64,
    pub ml: u64,
    pub rb: u64,
    pub mb: u64,
    pub mlr: u64,
    pub oq: bool,
    pub op: bool,
    pub ff: bool,
    pub msv: u64,
    pub mcl: u64,
}

impl Cfg {
    pub fn from_json(v: &Value) -> Cfg {
        let u = |k: &str, d: u64| v.get(k).and_then(|x| x.as_u64()).unwrap_or(d);
        let b = |k: &str, d: bool| v.get(k).and_then(|x| x.as_bool()).unwrap_or(d);
        Cfg {
            svc: v.get("svc").and_then(|x| x.as_str()).unwrap_or("ipc").to_string(),
            nc: u("nc", 2),
            ns: u("ns", 2),
            ma: u("ma", 1),
            ml: u("ml", 1),
            rb: u("rb", 2),
            mb: u("mb", 1),
            mlr: u("mlr", 1),
            oq: b("oq", false),
            op: b("op", false),
            ff: b("ff", false),
            msv: u("msv", 1),
            mcl: u("mcl", 2),
        }
    }
}

// ---------------------------------------------------------------------------------------------
// front-end independent interface

pub trait Fac {
    fn client(&self) -> Result<Box<dyn ClientPort>, Er>;
    fn server(&self, mlr: usize) -> Result<Box<dyn ServerPort>, Er>;
}
pub trait ClientPort {
    fn id(&self) -> u128;
    fn loan(&self, m: &Msg) -> Result<Box<dyn ReqLoan>, Er>;
    fn send_copy(&self, m: &Msg) -> Result<Box<dyn Pending>, Er>;
}
pub trait ReqLoan {
    fn addr(&self) -> usize;
    fn msg(&self) -> Msg;
    fn client_id(&self) -> u128;
    fn ids(&self) -> (i64, i64);
    fn send(self: Box<Self>) -> Result<Box<dyn Pending>, Er>;
}
pub trait Pending {
    fn addr(&self) -> usize;
    fn msg(&self) -> Msg;
    fn ids(&self) -> (i64, i64);
    fn receive(&self) -> Result<Option<Box<dyn Resp>>, Er>;
    fn is_connected(&self) -> bool;
    fn has_response(&self) -> bool;
    fn set_disconnect_hint(&self);
    fn nconn(&self) -> usize;
}
pub trait Resp {
    fn msg(&self) -> Msg;
    fn server_id(&self) -> u128;
    fn rid(&self) -> i64;
}
pub trait ServerPort {
    fn id(&self) -> u128;
    fn receive(&self) -> Result<Option<Box<dyn Active>>, Er>;
    fn has_requests(&self) -> Result<bool, Er>;
}
pub trait Active {
    fn msg(&self) -> Msg;
    fn client_id(&self) -> u128;
    fn ids(&self) -> (i64, i64);
    fn loan(&self, m: &Msg) -> Result<Box<dyn RespLoan>, Er>;
    fn send_copy(&self, m: &Msg) -> Result<(), Er>;
    fn is_connected(&self) -> bool;
    fn has_disconnect_hint(&self) -> bool;
}
pub trait RespLoan {
    fn addr(&self) -> usize;
    fn msg(&self) -> Msg;
    fn send(self: Box<Self>) -> Result<(), Er>;
}

fn parse_field(dbg: &str, key: &str) -> i64 {
    if let Some(i) = dbg.find(key) {
        let rest = &dbg[i + key.len()..];
        if let Some(p) = rest.find('(') {
            let digits: String = rest[p + 1..].chars().take_while(|c| c.is_ascii_digit()).collect();
            if let Ok(v) = digits.parse::<u64>() {
                return (v & 0x3fff_ffff) as i64;
            }
        }
    }
    -2
}
fn hdr_ids<H: core::fmt::Debug>(h: &H) -> (i64, i64) {
    let s = format!("{h:?}");
    (parse_field(&s, "channel_id:"), parse_field(&s, "request_id:"))
}

// ---- Rust front end ----------------------------------------------------------------------------

type Cl<S> = Client<S, Msg, (), Msg, ()>;
type Sv<S> = Server<S, Msg, (), Msg, ()>;
type Pr<S> = PendingResponse<S, Msg, (), Msg, ()>;
type Ar<S> = ActiveRequest<S, Msg, (), Msg, ()>;
type RqM<S> = RequestMut<S, Msg, (), Msg, ()>;
type RsM<S> = ResponseMut<S, Msg, ()>;
type Rs<S> = Response<S, Msg, ()>;
type RFacT<S> = RrFactoryR<S, Msg, (), Msg, ()>;

struct RF<S: Service>(RFacT<S>, Arc<Table>);
struct RC<S: Service>(Cl<S>, Arc<Table>);
struct RL<S: Service>(RqM<S>, Arc<Table>);
struct RP<S: Service>(Pr<S>, Arc<Table>);
struct RR<S: Service>(Rs<S>);
struct RS<S: Service>(Sv<S>, Arc<Table>);
struct RA<S: Service>(Ar<S>, Arc<Table>);
struct RRL<S: Service>(RsM<S>, Arc<Table>);

fn rust_service<S: Service>(node: &Node<S>, name: &ServiceName, c: &Cfg, open: bool, t: &Table) -> Result<RFacT<S>, Er> {
    let b = node
        .service_builder(name)
        .request_response::<Msg, Msg>()
        .max_active_requests_per_client(c.ma as usize)
        .max_loaned_requests(c.ml as usize)
        .max_response_buffer_size(c.rb as usize)
        .max_borrowed_responses_per_pending_response(c.mb as usize)
        .enable_safe_overflow_for_requests(c.oq)
        .enable_safe_overflow_for_responses(c.op)
        .enable_fire_and_forget_requests(c.ff)
        .max_servers(c.msv as usize)
        .max_clients(c.mcl as usize)
        .max_nodes(4);
    if open {
        b.open().map_err(|e| Er::R(t.rust("RequestResponseOpenError", e)))
    } else {
        b.create().map_err(|e| Er::R(t.rust("RequestResponseCreateError", e)))
    }
}

impl<S: Service + 'static> Fac for RF<S> {
    fn client(&self) -> Result<Box<dyn ClientPort>, Er> {
        match self.0.client_builder().backpressure_strategy(BackpressureStrategy::DiscardData).create() {
            Ok(c) => Ok(Box::new(RC(c, self.1.clone()))),
            Err(e) => Err(Er::R(self.1.rust("ClientCreateError", e))),
        }
    }
    fn server(&self, mlr: usize) -> Result<Box<dyn ServerPort>, Er> {
        match self.0.server_builder().backpressure_strategy(BackpressureStrategy::DiscardData).max_loaned_responses_per_request(mlr).create() {
            Ok(s) => Ok(Box::new(RS(s, self.1.clone()))),
            Err(e) => Err(Er::R(self.1.rust("ServerCreateError", e))),
        }
    }
}
impl<S: Service + 'static> ClientPort for RC<S> {
    fn id(&self) -> u128 {
        self.0.id().value()
    }
    fn loan(&self, m: &Msg) -> Result<Box<dyn ReqLoan>, Er> {
        match self.0.loan_uninit() {
            Ok(r) => Ok(Box::new(RL(r.write_payload(*m), self.1.clone()))),
            Err(e) => Err(Er::R(self.1.rust("LoanError", e))),
        }
    }
    fn send_copy(&self, m: &Msg) -> Result<Box<dyn Pending>, Er> {
        match self.0.send_copy(*m) {
            Ok(p) => Ok(Box::new(RP(p, self.1.clone()))),
            Err(e) => Err(Er::R(self.1.rust("RequestSendError", e))),
        }
    }
}
impl<S: Service + 'static> ReqLoan for RL<S> {
    fn addr(&self) -> usize {
        self.0.payload() as *const Msg as usize
    }
    fn msg(&self) -> Msg {
        *self.0.payload()
    }
    fn client_id(&self) -> u128 {
        self.0.header().client_id().value()
    }
    fn ids(&self) -> (i64, i64) {
        hdr_ids(self.0.header())
    }
    fn send(self: Box<Self>) -> Result<Box<dyn Pending>, Er> {
        let t = self.1.clone();
        match self.0.send() {
            Ok(p) => Ok(Box::new(RP(p, t))),
            Err(e) => Err(Er::R(t.rust("RequestSendError", e))),
        }
    }
}
impl<S: Service + 'static> Pending for RP<S> {
    fn addr(&self) -> usize {
        self.0.payload() as *const Msg as usize
    }
    fn msg(&self) -> Msg {
        *self.0.payload()
    }
    fn ids(&self) -> (i64, i64) {
        hdr_ids(self.0.header())
    }
    fn receive(&self) -> Result<Option<Box<dyn Resp>>, Er> {
        match self.0.receive() {
            Ok(Some(r)) => Ok(Some(Box::new(RR(r)))),
            Ok(None) => Ok(None),
            Err(e) => Err(Er::R(self.1.rust("ReceiveError", e))),
        }
    }
    fn is_connected(&self) -> bool {
        self.0.is_connected()
    }
    fn has_response(&self) -> bool {
        self.0.has_response()
    }
    fn set_disconnect_hint(&self) {
        self.0.set_disconnect_hint()
    }
    fn nconn(&self) -> usize {
        self.0.number_of_server_connections()
    }
}
impl<S: Service> Resp for RR<S> {
    fn msg(&self) -> Msg {
        *self.0.payload()
    }
    fn server_id(&self) -> u128 {
        self.0.header().server_id().value()
    }
    fn rid(&self) -> i64 {
        hdr_ids(self.0.header()).1
    }
}
impl<S: Service + 'static> ServerPort for RS<S> {
    fn id(&self) -> u128 {
        self.0.id().value()
    }
    fn receive(&self) -> Result<Option<Box<dyn Active>>, Er> {
        match self.0.receive() {
            Ok(Some(a)) => Ok(Some(Box::new(RA(a, self.1.clone())))),
            Ok(None) => Ok(None),
            Err(e) => Err(Er::R(self.1.rust("ReceiveError", e))),
        }
    }
    fn has_requests(&self) -> Result<bool, Er> {
        self.0.has_requests().map_err(|e| Er::R(self.1.rust("ConnectionFailure", e)))
    }
}
impl<S: Service + 'static> Active for RA<S> {
    fn msg(&self) -> Msg {
        *self.0.payload()
    }
    fn client_id(&self) -> u128 {
        self.0.header().client_id().value()
    }
    fn ids(&self) -> (i64, i64) {
        hdr_ids(self.0.header())
    }
    fn loan(&self, m: &Msg) -> Result<Box<dyn RespLoan>, Er> {
        match self.0.loan_uninit() {
            Ok(l) => Ok(Box::new(RRL(l.write_payload(*m), self.1.clone()))),
            Err(e) => Err(Er::R(self.1.rust("LoanError", e))),
        }
    }
    fn send_copy(&self, m: &Msg) -> Result<(), Er> {
        self.0.send_copy(*m).map_err(|e| Er::R(self.1.rust("SendError", e)))
    }
    fn is_connected(&self) -> bool {
        self.0.is_connected()
    }
    fn has_disconnect_hint(&self) -> bool {
        self.0.has_disconnect_hint()
    }
}
impl<S: Service> RespLoan for RRL<S> {
    fn addr(&self) -> usize {
        self.0.payload() as *const Msg as usize
    }
    fn msg(&self) -> Msg {
        *self.0.payload()
    }
    fn send(self: Box<Self>) -> Result<(), Er> {
        let t = self.1.clone();
        self.0.send().map_err(|e| Er::R(t.rust("SendError", e)))
    }
}

// ---- C front end -------------------------------------------------------------------------------

struct CF(iox2_port_factory_request_response_h);
struct CC(iox2_client_h);
struct CL(iox2_request_mut_h);
struct CP(iox2_pending_response_h);
struct CR(iox2_response_h);
struct CS(iox2_server_h);
struct CA(iox2_active_request_h);
struct CRL(iox2_response_mut_h);

fn c_service(node: &CNode, name: &str, c: &Cfg, open: bool) -> Result<Box<dyn Fac>, Er> {
    unsafe {
        let sb = node.service_builder(name)?;
        let b = iox2_service_builder_request_response(sb);
        let tn = "VerifReqResMsg";
        let r1 = iox2_service_builder_request_response_set_request_payload_type_details(
            &b, iox2_type_variant_e::FIXED_SIZE, tn.as_ptr() as *const _, tn.len(), MSG_SIZE, core::mem::align_of::<Msg>());
        let r2 = iox2_service_builder_request_response_set_response_payload_type_details(
            &b, iox2_type_variant_e::FIXED_SIZE, tn.as_ptr() as *const _, tn.len(), MSG_SIZE, core::mem::align_of::<Msg>());
        if r1 != IOX2_OK || r2 != IOX2_OK {
            return Err(Er::C("TypeDetailError", if r1 != IOX2_OK { r1 } else { r2 }));
        }
        iox2_service_builder_request_response_max_active_requests_per_client(&b, c.ma as usize);
        iox2_service_builder_request_response_max_loaned_requests(&b, c.ml as usize);
        iox2_service_builder_request_response_max_response_buffer_size(&b, c.rb as usize);
        iox2_service_builder_request_response_max_borrowed_responses_per_pending_response(&b, c.mb as usize);
        iox2_service_builder_request_response_enable_safe_overflow_for_requests(&b, c.oq);
        iox2_service_builder_request_response_enable_safe_overflow_for_responses(&b, c.op);
        iox2_service_builder_request_response_enable_fire_and_forget_requests(&b, c.ff);
        iox2_service_builder_request_response_max_servers(&b, c.msv as usize);
        iox2_service_builder_request_response_max_clients(&b, c.mcl as usize);
        iox2_service_builder_request_response_set_max_nodes(&b, 4);
        let mut h: iox2_port_factory_request_response_h = core::ptr::null_mut();
        if open {
            rc("RequestResponseOpenError", iox2_service_builder_request_response_open(b, core::ptr::null_mut(), &mut h))?;
        } else {
            rc("RequestResponseCreateError", iox2_service_builder_request_response_create(b, core::ptr::null_mut(), &mut h))?;
        }
        Ok(Box::new(CF(h)))
    }
}

impl Drop for CF {
    fn drop(&mut self) {
        unsafe { iox2_port_factory_request_response_drop(self.0) }
    }
}
impl Fac for CF {
    fn client(&self) -> Result<Box<dyn ClientPort>, Er> {
        unsafe {
            let b = iox2_port_factory_request_response_client_builder(&self.0, core::ptr::null_mut());
            iox2_port_factory_client_builder_backpressure_strategy(&b, iox2_backpressure_strategy_e::DISCARD_DATA);
            let mut h: iox2_client_h = core::ptr::null_mut();
            rc("ClientCreateError", iox2_port_factory_client_builder_create(b, core::ptr::null_mut(), &mut h))?;
            Ok(Box::new(CC(h)))
        }
    }
    fn server(&self, mlr: usize) -> Result<Box<dyn ServerPort>, Er> {
        unsafe {
            let b = iox2_port_factory_request_response_server_builder(&self.0, core::ptr::null_mut());
            iox2_port_factory_server_builder_backpressure_strategy(&b, iox2_backpressure_strategy_e::DISCARD_DATA);
            iox2_port_factory_server_builder_set_max_loaned_responses_per_request(&b, mlr);
            let mut h: iox2_server_h = core::ptr::null_mut();
            rc("ServerCreateError", iox2_port_factory_server_builder_create(b, core::ptr::null_mut(), &mut h))?;
            Ok(Box::new(CS(h)))
        }
    }
}
impl Drop for CC {
    fn drop(&mut self) {
        unsafe { iox2_client_drop(self.0) }
    }
}
impl ClientPort for CC {
    fn id(&self) -> u128 {
        unsafe {
            let mut idh: iox2_unique_client_id_h = core::ptr::null_mut();
            iox2_client_id(&self.0, core::ptr::null_mut(), &mut idh);
            capi::take_client_id(idh)
        }
    }
    fn loan(&self, m: &Msg) -> Result<Box<dyn ReqLoan>, Er> {
        unsafe {
            let mut h: iox2_request_mut_h = core::ptr::null_mut();
            rc("LoanError", iox2_client_loan_slice_uninit(&self.0, core::ptr::null_mut(), &mut h, 1))?;
            let l = CL(h);
            let mut p: *mut c_void = core::ptr::null_mut();
            iox2_request_mut_payload_mut(&l.0, &mut p, core::ptr::null_mut());
            let avail = iox2_request_mut_payload_number_of_bytes(&l.0);
            core::ptr::copy_nonoverlapping(m.bytes().as_ptr(), p as *mut u8, avail.min(MSG_SIZE));
            Ok(Box::new(l))
        }
    }
    fn send_copy(&self, m: &Msg) -> Result<Box<dyn Pending>, Er> {
        unsafe {
            let mut h: iox2_pending_response_h = core::ptr::null_mut();
            rc(
                "RequestSendError",
                iox2_client_send_copy(&self.0, m.bytes().as_ptr() as *const c_void, MSG_SIZE, 1, core::ptr::null_mut(), &mut h),
            )?;
            Ok(Box::new(CP(h)))
        }
    }
}
unsafe fn req_header_client(hh: iox2_request_header_h) -> u128 {
    unsafe {
        let mut idh: iox2_unique_client_id_h = core::ptr::null_mut();
        iox2_request_header_client_id(&hh, core::ptr::null_mut(), &mut idh);
        let id = capi::take_client_id(idh);
        iox2_request_header_drop(hh);
        id
    }
}
impl Drop for CL {
    fn drop(&mut self) {
        if !self.0.is_null() {
            unsafe { iox2_request_mut_drop(self.0) }
        }
    }
}
impl ReqLoan for CL {
    fn addr(&self) -> usize {
        unsafe {
            let mut p: *const c_void = core::ptr::null();
            iox2_request_mut_payload(&self.0, &mut p, core::ptr::null_mut());
            p as usize
        }
    }
    fn msg(&self) -> Msg {
        unsafe { Msg::from_ptr(self.addr() as *const c_void) }
    }
    fn client_id(&self) -> u128 {
        unsafe {
            let mut hh: iox2_request_header_h = core::ptr::null_mut();
            iox2_request_mut_header(&self.0, core::ptr::null_mut(), &mut hh);
            req_header_client(hh)
        }
    }
    fn ids(&self) -> (i64, i64) {
        (-1, -1)
    }
    fn send(mut self: Box<Self>) -> Result<Box<dyn Pending>, Er> {
        unsafe {
            let h = self.0;
            self.0 = core::ptr::null_mut();
            let mut ph: iox2_pending_response_h = core::ptr::null_mut();
            rc("RequestSendError", iox2_request_mut_send(h, core::ptr::null_mut(), &mut ph))?;
            Ok(Box::new(CP(ph)))
        }
    }
}
impl Drop for CP {
    fn drop(&mut self) {
        unsafe { iox2_pending_response_drop(self.0) }
    }
}
impl Pending for CP {
    fn addr(&self) -> usize {
        unsafe {
            let mut p: *const c_void = core::ptr::null();
            iox2_pending_response_payload(&self.0, &mut p, core::ptr::null_mut());
            p as usize
        }
    }
    fn msg(&self) -> Msg {
        unsafe { Msg::from_ptr(self.addr() as *const c_void) }
    }
    fn ids(&self) -> (i64, i64) {
        (-1, -1)
    }
    fn receive(&self) -> Result<Option<Box<dyn Resp>>, Er> {
        unsafe {
            let mut h: iox2_response_h = core::ptr::null_mut();
            rc("ReceiveError", iox2_pending_response_receive(&self.0, core::ptr::null_mut(), &mut h))?;
            if h.is_null() { Ok(None) } else { Ok(Some(Box::new(CR(h)))) }
        }
    }
    fn is_connected(&self) -> bool {
        unsafe { iox2_pending_response_is_connected(&self.0) }
    }
    fn has_response(&self) -> bool {
        unsafe { iox2_pending_response_has_response(&self.0) }
    }
    fn set_disconnect_hint(&self) {
        unsafe { iox2_pending_response_set_disconnect_hint(&self.0) }
    }
    fn nconn(&self) -> usize {
        unsafe { iox2_pending_response_number_of_server_connections(&self.0) }
    }
}
impl Drop for CR {
    fn drop(&mut self) {
        unsafe { iox2_response_drop(self.0) }
    }
}
impl Resp for CR {
    fn msg(&self) -> Msg {
        unsafe {
            let mut p: *const c_void = core::ptr::null();
            iox2_response_payload(&self.0, &mut p, core::ptr::null_mut());
            Msg::from_ptr(p)
        }
    }
    fn server_id(&self) -> u128 {
        unsafe {
            let mut hh: iox2_response_header_h = core::ptr::null_mut();
            iox2_response_header(&self.0, core::ptr::null_mut(), &mut hh);
            let mut idh: iox2_unique_server_id_h = core::ptr::null_mut();
            iox2_response_header_server_id(&hh, core::ptr::null_mut(), &mut idh);
            let id = capi::take_server_id(idh);
            iox2_response_header_drop(hh);
            id
        }
    }
    fn rid(&self) -> i64 {
        -1
    }
}
impl Drop for CS {
    fn drop(&mut self) {
        unsafe { iox2_server_drop(self.0) }
    }
}
impl ServerPort for CS {
    fn id(&self) -> u128 {
        unsafe {
            let mut idh: iox2_unique_server_id_h = core::ptr::null_mut();
            iox2_server_id(&self.0, core::ptr::null_mut(), &mut idh);
            capi::take_server_id(idh)
        }
    }
    fn receive(&self) -> Result<Option<Box<dyn Active>>, Er> {
        unsafe {
            let mut h: iox2_active_request_h = core::ptr::null_mut();
            rc("ReceiveError", iox2_server_receive(&self.0, core::ptr::null_mut(), &mut h))?;
            if h.is_null() { Ok(None) } else { Ok(Some(Box::new(CA(h)))) }
        }
    }
    fn has_requests(&self) -> Result<bool, Er> {
        unsafe {
            let mut v = false;
            rc("ConnectionFailure", iox2_server_has_requests(&self.0, &mut v))?;
            Ok(v)
        }
    }
}
impl Drop for CA {
    fn drop(&mut self) {
        unsafe { iox2_active_request_drop(self.0) }
    }
}
impl Active for CA {
    fn msg(&self) -> Msg {
        unsafe {
            let mut p: *const c_void = core::ptr::null();
            iox2_active_request_payload(&self.0, &mut p, core::ptr::null_mut());
            Msg::from_ptr(p)
        }
    }
    fn client_id(&self) -> u128 {
        unsafe {
            let mut hh: iox2_request_header_h = core::ptr::null_mut();
            iox2_active_request_header(&self.0, core::ptr::null_mut(), &mut hh);
            req_header_client(hh)
        }
    }
    fn ids(&self) -> (i64, i64) {
        (-1, -1)
    }
    fn loan(&self, m: &Msg) -> Result<Box<dyn RespLoan>, Er> {
        unsafe {
            let mut h: iox2_response_mut_h = core::ptr::null_mut();
            rc("LoanError", iox2_active_request_loan_slice_uninit(&self.0, core::ptr::null_mut(), &mut h, 1))?;
            let l = CRL(h);
            let mut p: *mut c_void = core::ptr::null_mut();
            iox2_response_mut_payload_mut(&l.0, &mut p, core::ptr::null_mut());
            let avail = iox2_response_mut_payload_number_of_bytes(&l.0);
            core::ptr::copy_nonoverlapping(m.bytes().as_ptr(), p as *mut u8, avail.min(MSG_SIZE));
            Ok(Box::new(l))
        }
    }
    fn send_copy(&self, m: &Msg) -> Result<(), Er> {
        unsafe { rc("SendError", iox2_active_request_send_copy(&self.0, m.bytes().as_ptr() as *const c_void, MSG_SIZE, 1)) }
    }
    fn is_connected(&self) -> bool {
        unsafe { iox2_active_request_is_connected(&self.0) }
    }
    fn has_disconnect_hint(&self) -> bool {
        unsafe { iox2_active_request_has_disconnect_hint(&self.0) }
    }
}
impl Drop for CRL {
    fn drop(&mut self) {
        if !self.0.is_null() {
            unsafe { iox2_response_mut_drop(self.0) }
        }
    }
}
impl RespLoan for CRL {
    fn addr(&self) -> usize {
        unsafe {
            let mut p: *const c_void = core::ptr::null();
            iox2_response_mut_payload(&self.0, &mut p, core::ptr::null_mut());
            p as usize
        }
    }
    fn msg(&self) -> Msg {
        unsafe { Msg::from_ptr(self.addr() as *const c_void) }
    }
    fn send(mut self: Box<Self>) -> Result<(), Er> {
        unsafe {
            let h = self.0;
            self.0 = core::ptr::null_mut();
            rc("SendError", iox2_response_mut_send(h))
        }
    }
}

// ---- world ---------------------------------------------------------------------------------------

#[derive(Clone, Debug, Default)]
struct Step {
    a: String,
    c: u64,
    s: u64,
    n: u64,
    j: u64,
    h: u64,
    api: String,
}

impl Step {
    fn from_json(v: &Value) -> Step {
        let u = |k: &str| v.get(k).and_then(|x| x.as_u64()).unwrap_or(0);
        Step {
            a: v.get("a").and_then(|x| x.as_str()).unwrap_or("").to_string(),
            c: u("c"),
            s: u("s"),
            n: u("n"),
            j: u("j"),
            h: u("h"),
            api: v.get("api").and_then(|x| x.as_str()).unwrap_or("rust").to_string(),
        }
    }
}

#[derive(Clone, Debug, Default)]
struct Rec {
    a: String,
    api: String,
    c: u64,
    s: u64,
    n: u64,
    j: u64,
    h: u64,
    r: String,
    rl: String,
    ch: i64,
    x: u64,
    rid: i64,
    pc: u64,
    pn: u64,
    ps: u64,
    pj: u64,
    ok: u64,
    v: u64,
    bad: u64,
    dg: u64,
    hc: u64,
    hs: u64,
    ncl: u64,
    nsv: u64,
}

impl Rec {
    fn of(st: &Step) -> Rec {
        Rec { a: st.a.clone(), c: st.c, s: st.s, n: st.n, j: st.j, h: st.h, ch: -1, rid: -1, ok: 1, api: "-".into(), ..Default::default() }
    }
    fn to_json(&self) -> Value {
        json!({"k": "op", "a": self.a, "api": self.api, "c": self.c, "s": self.s, "n": self.n, "j": self.j, "h": self.h,
               "r": self.r, "rl": self.rl, "ch": self.ch, "x": self.x, "rid": self.rid, "pc": self.pc, "pn": self.pn,
               "ps": self.ps, "pj": self.pj, "ok": self.ok, "v": self.v, "bad": self.bad, "dg": self.dg, "hc": self.hc,
               "hs": self.hs, "ncl": self.ncl, "nsv": self.nsv})
    }
}

/// like drv-reqres: the innermost variant name
fn innermost(label: &str) -> String {
    let t = label.trim_end_matches(')');
    match t.rfind('(') {
        Some(i) => t[i + 1..].to_string(),
        None => t.to_string(),
    }
}

struct Held {
    c: u64,
    resp: Box<dyn Resp>,
    seen: Msg,
}

struct World<S: Service + 'static> {
    cfg: Cfg,
    t: Arc<Table>,
    rnode: Option<Node<S>>,
    cnode: Option<CNode>,
    rfac: Option<Box<dyn Fac>>,
    cfac: Option<Box<dyn Fac>>,
    onode: Option<Node<S>>,
    obs: Option<RFacT<S>>,
    clients: BTreeMap<u64, (String, Box<dyn ClientPort>)>,
    servers: BTreeMap<u64, (String, Box<dyn ServerPort>)>,
    used_c: BTreeMap<u64, bool>,
    used_s: BTreeMap<u64, bool>,
    cids: HashMap<u128, u64>,
    sids: HashMap<u128, u64>,
    reqloans: BTreeMap<(u64, u64), Box<dyn ReqLoan>>,
    pend: BTreeMap<(u64, u64), Box<dyn Pending>>,
    held: BTreeMap<u64, Held>,
    areq: BTreeMap<(u64, u64, u64), Box<dyn Active>>,
    rloans: BTreeMap<(u64, u64, u64, u64), Box<dyn RespLoan>>,
    next_n: BTreeMap<u64, u64>,
    next_j: BTreeMap<(u64, u64, u64), u64>,
    next_h: u64,
    req_addr: BTreeMap<u64, BTreeMap<usize, u64>>,
    resp_addr: BTreeMap<u64, BTreeMap<usize, u64>>,
    poisoned: bool,
}

fn idx_of(map: &mut BTreeMap<usize, u64>, addr: usize) -> u64 {
    let next = map.len() as u64 + 1;
    *map.entry(addr).or_insert(next)
}

impl<S: Service + 'static> World<S> {
    fn count_bad(&self) -> u64 {
        let mut bad = 0;
        for ((c, n), r) in &self.reqloans {
            if r.msg() != Msg::request(*c, *n) {
                bad += 1;
            }
        }
        for ((c, n), p) in &self.pend {
            if p.msg() != Msg::request(*c, *n) {
                bad += 1;
            }
        }
        for h in self.held.values() {
            if h.resp.msg() != h.seen {
                bad += 1;
            }
        }
        for ((_s, c, n), a) in &self.areq {
            if a.msg() != Msg::request(*c, *n) {
                bad += 1;
            }
        }
        for ((s, c, n, j), l) in &self.rloans {
            if l.msg() != Msg::response(*c, *n, *s, *j) {
                bad += 1;
            }
        }
        bad
    }

    fn client_is_idle(&self, c: u64) -> bool {
        !self.reqloans.keys().any(|k| k.0 == c) && !self.pend.keys().any(|k| k.0 == c) && !self.held.values().any(|h| h.c == c)
    }
    fn server_is_idle(&self, s: u64) -> bool {
        !self.areq.keys().any(|k| k.0 == s) && !self.rloans.keys().any(|k| k.0 == s)
    }
    fn fac(&self, api: &str) -> Option<&dyn Fac> {
        if api == "c" { self.cfac.as_deref() } else { self.rfac.as_deref() }
    }
    fn err(&self, rec: &mut Rec, e: &Er) {
        rec.rl = self.t.label(e);
        rec.r = innermost(&rec.rl);
    }
    fn chunks(&self, client: Option<u128>, server: Option<u128>) -> u64 {
        let Some(o) = &self.obs else { return 0 };
        let mut v = 0u64;
        if let Some(id) = client {
            o.dynamic_config().list_clients(|d| {
                if d.client_id.value() == id {
                    v = d.number_of_requests as u64;
                }
                CallbackProgression::Continue
            });
        }
        if let Some(id) = server {
            o.dynamic_config().list_servers(|d| {
                if d.server_id.value() == id {
                    v = d.number_of_responses as u64;
                }
                CallbackProgression::Continue
            });
        }
        v
    }

    fn exec(&mut self, st: &Step) -> Rec {
        let mut rec = Rec::of(st);
        if self.poisoned {
            rec.r = "skipped-after-panic".into();
            rec.a = "Skip".into();
            return rec;
        }
        let res = catch_unwind(AssertUnwindSafe(|| self.exec_inner(st, &mut rec)));
        match res {
            Ok(true) => {}
            Ok(false) => {
                rec.a = "Skip".into();
                rec.r = format!("not-applicable:{}", st.a);
            }
            Err(_) => {
                rec.r = "PANIC".into();
                rec.ok = 0;
                self.poisoned = true;
            }
        }
        if !self.poisoned {
            rec.bad = catch_unwind(AssertUnwindSafe(|| self.count_bad())).unwrap_or(99);
            if let Some(o) = &self.obs {
                rec.ncl = o.dynamic_config().number_of_clients() as u64;
                rec.nsv = o.dynamic_config().number_of_servers() as u64;
            }
        }
        rec
    }

    fn exec_inner(&mut self, st: &Step, rec: &mut Rec) -> bool {
        match st.a.as_str() {
            "CreateClient" => {
                if self.used_c.contains_key(&st.c) || st.c == 0 || st.c > self.cfg.nc {
                    return false;
                }
                rec.api = st.api.clone();
                let Some(f) = self.fac(&st.api) else { return false };
                match f.client() {
                    Ok(cl) => {
                        let id = cl.id();
                        rec.v = self.chunks(Some(id), None);
                        rec.r = "ok".into();
                        self.used_c.insert(st.c, true);
                        self.cids.insert(id, st.c);
                        self.clients.insert(st.c, (st.api.clone(), cl));
                    }
                    Err(e) => self.err(rec, &e),
                }
            }
            "CreateServer" => {
                if self.used_s.contains_key(&st.s) || st.s == 0 || st.s > self.cfg.ns {
                    return false;
                }
                rec.api = st.api.clone();
                let Some(f) = self.fac(&st.api) else { return false };
                match f.server(self.cfg.mlr as usize) {
                    Ok(sv) => {
                        let id = sv.id();
                        rec.v = self.chunks(None, Some(id));
                        rec.r = "ok".into();
                        self.used_s.insert(st.s, true);
                        self.sids.insert(id, st.s);
                        self.servers.insert(st.s, (st.api.clone(), sv));
                    }
                    Err(e) => self.err(rec, &e),
                }
            }
            "DropClient" => {
                if !self.clients.contains_key(&st.c) || !self.client_is_idle(st.c) {
                    return false;
                }
                let (api, cl) = self.clients.remove(&st.c).unwrap();
                drop(cl);
                rec.api = api;
                rec.r = "ok".into();
            }
            "DropServer" => {
                if !self.servers.contains_key(&st.s) || !self.server_is_idle(st.s) {
                    return false;
                }
                let (api, sv) = self.servers.remove(&st.s).unwrap();
                drop(sv);
                rec.api = api;
                rec.r = "ok".into();
            }
            "LoanRequest" => {
                let Some((api, cl)) = self.clients.get(&st.c) else { return false };
                rec.api = api.clone();
                let n = self.next_n.get(&st.c).copied().unwrap_or(0) + 1;
                let m = Msg::request(st.c, n);
                match cl.loan(&m) {
                    Ok(req) => {
                        self.next_n.insert(st.c, n);
                        rec.n = n;
                        (rec.ch, rec.rid) = req.ids();
                        rec.x = idx_of(self.req_addr.entry(st.c).or_default(), req.addr());
                        rec.hc = self.cids.get(&req.client_id()).copied().unwrap_or(0);
                        rec.dg = digest(req.msg().bytes());
                        rec.r = "ok".into();
                        self.reqloans.insert((st.c, n), req);
                    }
                    Err(e) => self.err(rec, &e),
                }
            }
            "SendRequest" => {
                let Some(req) = self.reqloans.remove(&(st.c, st.n)) else { return false };
                rec.api = self.clients.get(&st.c).map(|x| x.0.clone()).unwrap_or_default();
                match req.send() {
                    Ok(p) => {
                        (rec.ch, rec.rid) = p.ids();
                        rec.v = p.nconn() as u64;
                        rec.x = idx_of(self.req_addr.entry(st.c).or_default(), p.addr());
                        rec.dg = digest(p.msg().bytes());
                        rec.r = "ok".into();
                        self.pend.insert((st.c, st.n), p);
                    }
                    Err(e) => self.err(rec, &e),
                }
            }
            "SendCopy" => {
                let Some((api, cl)) = self.clients.get(&st.c) else { return false };
                rec.api = api.clone();
                let n = self.next_n.get(&st.c).copied().unwrap_or(0) + 1;
                match cl.send_copy(&Msg::request(st.c, n)) {
                    Ok(p) => {
                        self.next_n.insert(st.c, n);
                        rec.n = n;
                        (rec.ch, rec.rid) = p.ids();
                        rec.v = p.nconn() as u64;
                        rec.x = idx_of(self.req_addr.entry(st.c).or_default(), p.addr());
                        rec.dg = digest(p.msg().bytes());
                        rec.r = "ok".into();
                        self.pend.insert((st.c, n), p);
                    }
                    Err(e) => self.err(rec, &e),
                }
            }
            "DropRequest" => {
                if self.reqloans.remove(&(st.c, st.n)).is_none() {
                    return false;
                }
                rec.api = self.clients.get(&st.c).map(|x| x.0.clone()).unwrap_or_default();
                rec.r = "ok".into();
            }
            "DropPending" => {
                if self.pend.remove(&(st.c, st.n)).is_none() {
                    return false;
                }
                rec.api = self.clients.get(&st.c).map(|x| x.0.clone()).unwrap_or_default();
                rec.r = "ok".into();
            }
            "ReceiveResponse" => {
                let Some(p) = self.pend.get(&(st.c, st.n)) else { return false };
                rec.api = self.clients.get(&st.c).map(|x| x.0.clone()).unwrap_or_default();
                let my_rid = p.ids().1;
                match p.receive() {
                    Ok(Some(resp)) => {
                        let m = resp.msg();
                        rec.r = "some".into();
                        rec.pc = m.c;
                        rec.pn = m.n;
                        rec.ps = m.s;
                        rec.pj = m.j;
                        rec.rid = resp.rid();
                        rec.hs = self.sids.get(&resp.server_id()).copied().unwrap_or(0);
                        rec.dg = digest(m.bytes());
                        rec.ok = (m.intact() && m.kind == 2 && rec.rid == my_rid && rec.hs == m.s) as u64;
                        let h = self.next_h;
                        self.next_h += 1;
                        rec.h = h;
                        self.held.insert(h, Held { c: st.c, resp, seen: m });
                    }
                    Ok(None) => rec.r = "none".into(),
                    Err(e) => self.err(rec, &e),
                }
            }
            "DropResponse" => {
                let h = if st.h != 0 {
                    st.h
                } else {
                    match self.held.iter().find(|(_, r)| r.c == st.c && r.seen.s == st.s && r.seen.n == st.n && r.seen.j == st.j) {
                        Some((h, _)) => *h,
                        None => return false,
                    }
                };
                let Some(hr) = self.held.remove(&h) else { return false };
                rec.api = self.clients.get(&hr.c).map(|x| x.0.clone()).unwrap_or_default();
                rec.h = h;
                rec.c = hr.c;
                rec.s = hr.seen.s;
                rec.n = hr.seen.n;
                rec.j = hr.seen.j;
                rec.r = "ok".into();
            }
            "IsConnectedP" => {
                let Some(p) = self.pend.get(&(st.c, st.n)) else { return false };
                rec.api = self.clients.get(&st.c).map(|x| x.0.clone()).unwrap_or_default();
                rec.r = p.is_connected().to_string();
            }
            "HasResponse" => {
                let Some(p) = self.pend.get(&(st.c, st.n)) else { return false };
                rec.api = self.clients.get(&st.c).map(|x| x.0.clone()).unwrap_or_default();
                rec.r = p.has_response().to_string();
            }
            "DisconnectHint" => {
                let Some(p) = self.pend.get(&(st.c, st.n)) else { return false };
                rec.api = self.clients.get(&st.c).map(|x| x.0.clone()).unwrap_or_default();
                p.set_disconnect_hint();
                rec.r = "ok".into();
            }
            "ProbeRequestLoans" => {
                let Some((api, cl)) = self.clients.get(&st.c) else { return false };
                rec.api = api.clone();
                let mut got = Vec::new();
                loop {
                    match cl.loan(&Msg::zero()) {
                        Ok(r) => got.push(r),
                        Err(e) => {
                            rec.rl = self.t.label(&e);
                            rec.r = innermost(&rec.rl);
                            break;
                        }
                    }
                    if got.len() > 64 {
                        rec.r = "unbounded".to_string();
                        break;
                    }
                }
                rec.v = got.len() as u64;
            }
            "ReceiveRequest" => {
                let Some((api, sv)) = self.servers.get(&st.s) else { return false };
                rec.api = api.clone();
                match sv.receive() {
                    Ok(Some(ar)) => {
                        let m = ar.msg();
                        rec.r = "some".into();
                        rec.c = m.c;
                        rec.n = m.n;
                        rec.pc = m.c;
                        rec.pn = m.n;
                        (rec.ch, rec.rid) = ar.ids();
                        rec.hc = self.cids.get(&ar.client_id()).copied().unwrap_or(0);
                        rec.dg = digest(m.bytes());
                        rec.ok = (m.intact() && m.kind == 1 && rec.hc == m.c) as u64;
                        rec.v = ar.is_connected() as u64;
                        if self.areq.contains_key(&(st.s, m.c, m.n)) {
                            rec.r = "duplicate".into();
                            std::mem::forget(ar);
                        } else {
                            self.areq.insert((st.s, m.c, m.n), ar);
                        }
                    }
                    Ok(None) => rec.r = "none".into(),
                    Err(e) => self.err(rec, &e),
                }
            }
            "HasRequests" => {
                let Some((api, sv)) = self.servers.get(&st.s) else { return false };
                rec.api = api.clone();
                match sv.has_requests() {
                    Ok(b) => rec.r = b.to_string(),
                    Err(e) => self.err(rec, &e),
                }
            }
            "LoanResponse" => {
                let Some(ar) = self.areq.get(&(st.s, st.c, st.n)) else { return false };
                rec.api = self.servers.get(&st.s).map(|x| x.0.clone()).unwrap_or_default();
                let j = self.next_j.get(&(st.s, st.c, st.n)).copied().unwrap_or(0) + 1;
                match ar.loan(&Msg::response(st.c, st.n, st.s, j)) {
                    Ok(l) => {
                        self.next_j.insert((st.s, st.c, st.n), j);
                        rec.j = j;
                        rec.x = idx_of(self.resp_addr.entry(st.s).or_default(), l.addr());
                        rec.dg = digest(l.msg().bytes());
                        rec.r = "ok".into();
                        self.rloans.insert((st.s, st.c, st.n, j), l);
                    }
                    Err(e) => self.err(rec, &e),
                }
            }
            "SendResponse" => {
                let Some(l) = self.rloans.remove(&(st.s, st.c, st.n, st.j)) else { return false };
                rec.api = self.servers.get(&st.s).map(|x| x.0.clone()).unwrap_or_default();
                match l.send() {
                    Ok(()) => rec.r = "ok".into(),
                    Err(e) => self.err(rec, &e),
                }
            }
            "SendCopyResponse" => {
                let Some(ar) = self.areq.get(&(st.s, st.c, st.n)) else { return false };
                rec.api = self.servers.get(&st.s).map(|x| x.0.clone()).unwrap_or_default();
                let j = self.next_j.get(&(st.s, st.c, st.n)).copied().unwrap_or(0) + 1;
                match ar.send_copy(&Msg::response(st.c, st.n, st.s, j)) {
                    Ok(()) => {
                        self.next_j.insert((st.s, st.c, st.n), j);
                        rec.j = j;
                        rec.r = "ok".into();
                    }
                    Err(e) => self.err(rec, &e),
                }
            }
            "DropResponseLoan" => {
                if self.rloans.remove(&(st.s, st.c, st.n, st.j)).is_none() {
                    return false;
                }
                rec.api = self.servers.get(&st.s).map(|x| x.0.clone()).unwrap_or_default();
                rec.r = "ok".into();
            }
            "DropActive" => {
                if self.rloans.keys().any(|l| (l.0, l.1, l.2) == (st.s, st.c, st.n)) {
                    return false;
                }
                if self.areq.remove(&(st.s, st.c, st.n)).is_none() {
                    return false;
                }
                rec.api = self.servers.get(&st.s).map(|x| x.0.clone()).unwrap_or_default();
                rec.r = "ok".into();
            }
            "IsConnectedA" => {
                let Some(ar) = self.areq.get(&(st.s, st.c, st.n)) else { return false };
                rec.api = self.servers.get(&st.s).map(|x| x.0.clone()).unwrap_or_default();
                rec.r = ar.is_connected().to_string();
            }
            "HasDisconnectHint" => {
                let Some(ar) = self.areq.get(&(st.s, st.c, st.n)) else { return false };
                rec.api = self.servers.get(&st.s).map(|x| x.0.clone()).unwrap_or_default();
                rec.r = ar.has_disconnect_hint().to_string();
            }
            "ProbeResponseLoans" => {
                let Some(ar) = self.areq.get(&(st.s, st.c, st.n)) else { return false };
                rec.api = self.servers.get(&st.s).map(|x| x.0.clone()).unwrap_or_default();
                let mut got = Vec::new();
                loop {
                    match ar.loan(&Msg::zero()) {
                        Ok(r) => got.push(r),
                        Err(e) => {
                            rec.rl = self.t.label(&e);
                            rec.r = innermost(&rec.rl);
                            break;
                        }
                    }
                    if got.len() > 64 {
                        rec.r = "unbounded".to_string();
                        break;
                    }
                }
                rec.v = got.len() as u64;
            }
            _ => return false,
        }
        true
    }

    fn teardown(&mut self, order: u64) -> (u64, u64) {
        let objects = |w: &mut World<S>| {
            w.rloans.clear();
            w.held.clear();
            w.areq.clear();
            w.reqloans.clear();
            w.pend.clear();
            w.clients.clear();
            w.servers.clear();
        };
        let reg = |w: &World<S>| match &w.obs {
            Some(o) => (o.dynamic_config().number_of_clients() as u64, o.dynamic_config().number_of_servers() as u64),
            None => (0, 0),
        };
        let r;
        if order == 1 {
            self.rnode = None;
            self.cnode = None;
            self.rfac = None;
            self.cfac = None;
            objects(self);
            r = reg(self);
        } else {
            objects(self);
            r = reg(self);
            self.rfac = None;
            self.cfac = None;
            self.rnode = None;
            self.cnode = None;
        }
        self.obs = None;
        self.onode = None;
        r
    }
}

fn rust_node<S: Service>(dom: &Domain) -> Node<S> {
    let mut config = Config::default();
    config.global.set_root_path(&Path::new(dom.root.as_bytes()).expect("root path"));
    config.global.prefix = FileName::new(dom.prefix.as_bytes()).expect("prefix");
    NodeBuilder::new().config(&config).create::<S>().expect("rust node")
}

pub fn run_job<S: Service + 'static>(dom: &Domain, name: &str, run: u64, job: &Value, table: &Arc<Table>, tw: &mut TraceWriter, summary: &mut Summary) {
    let c = Cfg::from_json(&job["cfg"]);
    let creator = job["creator"].as_str().unwrap_or("rust").to_string();
    let order = job["order"].as_u64().unwrap_or(0);
    let steps: Vec<Step> = job["program"].as_array().map(|a| a.iter().map(Step::from_json).collect()).unwrap_or_default();
    let uses = |api: &str| creator == api || steps.iter().any(|s| (s.a == "CreateClient" || s.a == "CreateServer") && s.api == api);
    summary.runs += 1;
    let sname = ServiceName::new(name).expect("service name");
    let mut w = World::<S> {
        cfg: c.clone(),
        t: table.clone(),
        rnode: None,
        cnode: None,
        rfac: None,
        cfac: None,
        onode: None,
        obs: None,
        clients: BTreeMap::new(),
        servers: BTreeMap::new(),
        used_c: BTreeMap::new(),
        used_s: BTreeMap::new(),
        cids: HashMap::new(),
        sids: HashMap::new(),
        reqloans: BTreeMap::new(),
        pend: BTreeMap::new(),
        held: BTreeMap::new(),
        areq: BTreeMap::new(),
        rloans: BTreeMap::new(),
        next_n: BTreeMap::new(),
        next_j: BTreeMap::new(),
        next_h: 1,
        req_addr: BTreeMap::new(),
        resp_addr: BTreeMap::new(),
        poisoned: false,
    };
    let mut setup_err = None;
    for (i, api) in [creator.as_str(), if creator == "c" { "rust" } else { "c" }].into_iter().enumerate() {
        if !uses(api) || setup_err.is_some() {
            continue;
        }
        let open = i == 1;
        if api == "c" {
            match CNode::new(&dom.root, &dom.prefix, &c.svc).and_then(|n| c_service(&n, name, &c, open).map(|f| (n, f))) {
                Ok((n, f)) => {
                    w.cnode = Some(n);
                    w.cfac = Some(f);
                }
                Err(e) => setup_err = Some(format!("c: {}", table.label(&e))),
            }
        } else {
            let node = rust_node::<S>(dom);
            match rust_service(&node, &sname, &c, open, table) {
                Ok(f) => {
                    w.rfac = Some(Box::new(RF(f, table.clone())));
                    w.rnode = Some(node);
                }
                Err(e) => setup_err = Some(format!("rust: {}", table.label(&e))),
            }
        }
    }
    let onode = rust_node::<S>(dom);
    match rust_service(&onode, &sname, &c, true, table) {
        Ok(o) => {
            w.obs = Some(o);
            w.onode = Some(onode);
        }
        Err(e) => {
            setup_err.get_or_insert(format!("observer: {}", table.label(&e)));
        }
    }
    // parameter extraction: chunk counts the running code publishes for a client / a server
    let (mut nreq, mut nresp) = (0u64, 0u64);
    if setup_err.is_none() {
        let o = w.obs.as_ref().unwrap();
        let pc = o.client_builder().backpressure_strategy(BackpressureStrategy::DiscardData).create();
        let ps = o.server_builder().backpressure_strategy(BackpressureStrategy::DiscardData).max_loaned_responses_per_request(c.mlr as usize).create();
        match (pc, ps) {
            (Ok(pc), Ok(ps)) => {
                nreq = w.chunks(Some(pc.id().value()), None);
                nresp = w.chunks(None, Some(ps.id().value()));
            }
            _ => setup_err = Some("observer: probe ports".into()),
        }
    }
    tw.emit(&json!({"k": "reset", "run": run, "svc": c.svc, "nc": c.nc, "ns": c.ns, "ma": c.ma, "ml": c.ml,
                    "rb": c.rb, "mb": c.mb, "mlr": c.mlr, "oq": c.oq, "op": c.op, "ff": c.ff, "msv": c.msv,
                    "mcl": c.mcl, "nreq": nreq, "nresp": nresp, "creator": creator, "order": order,
                    "mode": job["mode"].as_str().unwrap_or("")}));
    if let Some(msg) = setup_err {
        tw.emit(&json!({"k": "end", "run": run, "teardown": format!("setup-failed: {msg}")}));
        return;
    }
    for st in &steps {
        let rec = w.exec(st);
        let e = rec.to_json();
        if rec.a != "Skip" {
            summary.count(&e);
        }
        tw.emit(&e);
        tw.flush();
    }
    if w.poisoned {
        summary.panics += 1;
        tw.emit(&json!({"k": "end", "run": run, "teardown": "leaked-after-panic"}));
        std::mem::forget(w);
        return;
    }
    let reg = catch_unwind(AssertUnwindSafe(|| w.teardown(order)));
    drop(w);
    let files = dom.listing();
    let reuse = if creator == "c" {
        match CNode::new(&dom.root, &dom.prefix, &c.svc).and_then(|n| c_service(&n, name, &c, false).map(|f| (n, f))) {
            Ok((n, f)) => {
                drop(f);
                drop(n);
                "ok".to_string()
            }
            Err(e) => table.label(&e),
        }
    } else {
        let n = rust_node::<S>(dom);
        match rust_service(&n, &sname, &c, false, table) {
            Ok(f) => {
                drop(f);
                "ok".to_string()
            }
            Err(e) => table.label(&e),
        }
    };
    *summary.counts.entry(format!("{creator}:teardown")).or_insert(0) += 1;
    let (ncl, nsv) = reg.as_ref().map(|r| *r).unwrap_or((99, 99));
    tw.emit(&json!({"k": "end", "run": run, "teardown": if reg.is_ok() { "ok" } else { "PANIC" }, "reg": {"ncl": ncl, "nsv": nsv},
                    "files": files, "reuse": reuse}));
}
