//! Small RAII layer over the `iox2_*` functions that all three patterns share: configuration, node,
//! service name, unique ids.  Everything here goes through the C API only.

#![allow(clippy::missing_safety_doc)]

use core::ffi::{c_char, c_int, c_void};
use iceoryx2_ffi_c::*;
use std::ffi::CString;

/// Result of an API call as the front end saw it.
///   Rust front end: the error value's Debug text;
///   C front end: the Rust error enum the iox2 function documents for its return value, and the int.
#[derive(Clone, Debug, PartialEq)]
pub enum Er {
    R(String),
    C(&'static str, i32),
}

impl Er {
    pub fn r<E: core::fmt::Debug>(e: E) -> Er {
        Er::R(format!("{e:?}"))
    }
    /// what is written into the trace; "@Enum:code" is translated through the dumped error table by the check
    pub fn label(&self) -> String {
        match self {
            Er::R(s) => s.clone(),
            Er::C(e, c) => format!("@{e}:{c}"),
        }
    }
}

pub fn rc(enum_name: &'static str, code: c_int) -> Result<(), Er> {
    if code == IOX2_OK { Ok(()) } else { Err(Er::C(enum_name, code)) }
}

// id accessors are exported symbols of the C library without a Rust-visible path
#[allow(improper_ctypes)]
unsafe extern "C" {
    fn iox2_unique_publisher_id_value(handle: iox2_unique_publisher_id_h, id_ptr: *mut u8, id_length: usize);
    fn iox2_unique_client_id_value(handle: iox2_unique_client_id_h, id_ptr: *mut u8, id_length: usize);
    fn iox2_unique_server_id_value(handle: iox2_unique_server_id_h, id_ptr: *mut u8, id_length: usize);
}

pub unsafe fn take_publisher_id(h: iox2_unique_publisher_id_h) -> u128 {
    let mut b = [0u8; 16];
    unsafe {
        iox2_unique_publisher_id_value(h, b.as_mut_ptr(), 16);
        iox2_unique_publisher_id_drop(h);
    }
    u128::from_ne_bytes(b)
}
pub unsafe fn take_client_id(h: iox2_unique_client_id_h) -> u128 {
    let mut b = [0u8; 16];
    unsafe {
        iox2_unique_client_id_value(h, b.as_mut_ptr(), 16);
        iox2_unique_client_id_drop(h);
    }
    u128::from_ne_bytes(b)
}
pub unsafe fn take_server_id(h: iox2_unique_server_id_h) -> u128 {
    let mut b = [0u8; 16];
    unsafe {
        iox2_unique_server_id_value(h, b.as_mut_ptr(), 16);
        iox2_unique_server_id_drop(h);
    }
    u128::from_ne_bytes(b)
}

pub fn service_type(variant: &str) -> iox2_service_type_e {
    if variant == "local" { iox2_service_type_e::LOCAL } else { iox2_service_type_e::IPC }
}

/// A node created through iox2_node_builder_* with an isolated domain configured through iox2_config_*.
pub struct CNode {
    pub h: iox2_node_h,
    pub st: iox2_service_type_e,
}

impl CNode {
    pub fn new(root: &str, prefix: &str, variant: &str) -> Result<CNode, Er> {
        unsafe {
            let mut cfg: iox2_config_h = core::ptr::null_mut();
            rc("ConfigCreationError", iox2_config_default(core::ptr::null_mut(), &mut cfg))?;
            let root_c = CString::new(root).unwrap();
            let prefix_c = CString::new(prefix).unwrap();
            rc("SemanticStringError", iox2_config_global_set_root_path(&cfg, root_c.as_ptr()))?;
            rc("SemanticStringError", iox2_config_global_set_prefix(&cfg, prefix_c.as_ptr()))?;
            iox2_config_defaults_publish_subscribe_set_subscriber_expired_connection_buffer(&cfg, 64);
            let nb = iox2_node_builder_new(core::ptr::null_mut());
            iox2_node_builder_set_config(&nb, &cfg);
            let st = service_type(variant);
            let mut h: iox2_node_h = core::ptr::null_mut();
            let r = iox2_node_builder_create(nb, core::ptr::null_mut(), st, &mut h);
            iox2_config_drop(cfg);
            rc("NodeCreationFailure", r)?;
            Ok(CNode { h, st })
        }
    }

    /// iox2_node_service_builder for `name`
    pub fn service_builder(&self, name: &str) -> Result<iox2_service_builder_h, Er> {
        unsafe {
            let mut sn: iox2_service_name_h = core::ptr::null_mut();
            rc(
                "ServiceNameError",
                iox2_service_name_new(core::ptr::null_mut(), name.as_ptr() as *const c_char, name.len(), &mut sn),
            )?;
            let b = iox2_node_service_builder(&self.h, core::ptr::null_mut(), iox2_cast_service_name_ptr(sn));
            iox2_service_name_drop(sn);
            Ok(b)
        }
    }
}

impl Drop for CNode {
    fn drop(&mut self) {
        unsafe { iox2_node_drop(self.h) }
    }
}

/// the 16 byte id buffers of the backpressure info
pub unsafe fn buffer16(f: impl FnOnce(*mut iox2_buffer_16_align_4_t)) -> u128 {
    #[repr(C, align(4))]
    struct Raw([u8; 16]);
    let mut raw = Raw([0u8; 16]);
    f(&mut raw as *mut Raw as *mut iox2_buffer_16_align_4_t);
    u128::from_ne_bytes(raw.0)
}

pub fn as_void<T>(p: *const T) -> *mut c_void {
    p as *mut c_void
}
