//! Publish-subscribe through both front ends.  The action vocabulary and the event format are those of
//! harness/drivers/pubsub (spec/api/PubSubTrace.tla), extended by what C18 compares:
//!   `api`   front end that executed the call ("c" / "rust")
//!   `dg`, `len`, `ne`   digest / number of bytes of the payload, number_of_elements of the header
//!   `al`    1 iff the payload address satisfies the alignment of the payload type details
//!   `np`, `ns`  number of publishers / subscribers in the dynamic config (Rust API observer) after the call
//!   `via`   "send_copy" for the loan/send pair a copy-send consists of

use core::ffi::{c_char, c_void};
use core::fmt::Debug;
use core::mem::MaybeUninit;
use std::collections::{BTreeMap, HashMap};
use std::panic::{AssertUnwindSafe, catch_unwind};
use std::sync::{Arc, Mutex};

use iceoryx2::port::publisher::{Publisher, PublisherCreateError};
use iceoryx2::port::subscriber::Subscriber;
use iceoryx2::port::update_connections::UpdateConnections;
use iceoryx2::port::{BackpressureAction, LoanError, SendError};
use iceoryx2::prelude::*;
use iceoryx2::sample::Sample;
use iceoryx2::sample_mut::SampleMut;
use iceoryx2::service::marker::{CustomHeaderMarker, CustomPayloadMarker};
use iceoryx2::service::port_factory::publish_subscribe::PortFactory as PsFactory;
use iceoryx2::service::static_config::message_type_details::{TypeDetail, TypeName, TypeVariant};
use iceoryx2_ffi_c::*;
use vlib::trace::TraceWriter;
use vlib::{Value, json};

use crate::capi::{self, CNode, Er, rc};
use crate::common::{Domain, PayloadSpec, Summary, Table, decode, digest, ev, fill};

pub type Calls = Arc<Mutex<Vec<u128>>>;

#[derive(Clone, Debug)]
pub struct Qos {
    pub maxpubs: usize,
    pub maxsubs: usize,
    pub bufmax: usize,
    pub hist: usize,
    pub borrow: usize,
    pub loan: usize,
    pub overflow: bool,
    pub strategy: String,
    pub payload: String,
    pub variant: String,
    pub spec: PayloadSpec,
}

impl Qos {
    pub fn from_json(v: &Value) -> Self {
        let n = |k: &str| v[k].as_u64().unwrap_or_else(|| panic!("cfg.{k} missing")) as usize;
        let payload = v["payload"].as_str().unwrap_or("u64").to_string();
        Qos {
            maxpubs: n("maxpubs"),
            maxsubs: n("maxsubs"),
            bufmax: n("bufmax"),
            hist: n("hist"),
            borrow: n("borrow"),
            loan: n("loan"),
            overflow: v["overflow"].as_u64().unwrap_or(0) == 1 || v["overflow"].as_bool().unwrap_or(false),
            strategy: v["strategy"].as_str().unwrap_or("discard").to_string(),
            spec: PayloadSpec::parse(&payload),
            payload,
            variant: v["variant"].as_str().unwrap_or("ipc").to_string(),
        }
    }
}

const MAX_NODES: usize = 4;

// ---------------------------------------------------------------------------------------------
// the front-end independent interface

pub trait Factory {
    fn create_pub(&self, q: &Qos, calls: Calls) -> Result<Box<dyn PubPort>, Er>;
    fn create_sub(&self, buf: usize, req: usize) -> Result<Box<dyn SubPort>, Er>;
}
pub trait PubPort {
    fn id(&self) -> u128;
    fn loan(&self, bytes: &[u8], nelem: usize) -> Result<Box<dyn LoanObj>, Er>;
    fn send_copy(&self, bytes: &[u8], nelem: usize) -> Result<usize, Er>;
    fn update(&self) -> Result<(), Er>;
}
pub trait LoanObj {
    fn addr(&self) -> usize;
    fn bytes(&self) -> Vec<u8>;
    fn nelem(&self) -> u64;
    fn pub_id(&self) -> u128;
    fn send(self: Box<Self>) -> Result<usize, Er>;
}
pub trait SubPort {
    fn recv(&self) -> Result<Option<Box<dyn SampleObj>>, Er>;
    fn has(&self) -> Result<bool, Er>;
}
pub trait SampleObj {
    fn bytes(&self) -> Vec<u8>;
    fn nelem(&self) -> u64;
    fn pub_id(&self) -> u128;
}

// ---------------------------------------------------------------------------------------------
// Rust front end: typed API for u64 and [u8], custom payload API for arbitrary type details

pub fn type_detail(variant: TypeVariant, name: &str, size: usize, align: usize) -> TypeDetail {
    let mut td = TypeDetail::new::<()>(variant);
    iceoryx2::testing::type_detail_set_name(&mut td, TypeName::try_from(name).expect("type name"));
    iceoryx2::testing::type_detail_set_size(&mut td, size);
    iceoryx2::testing::type_detail_set_alignment(&mut td, align);
    td
}

pub trait RKind: 'static {
    type T: ?Sized + Debug + IceoryxSend + 'static;
    type H: Debug + ZeroCopySend + 'static;
    fn service<S: Service>(node: &Node<S>, name: &ServiceName, q: &Qos, open: bool, t: &Table) -> Result<PsFactory<S, Self::T, Self::H>, Er>;
    fn publisher<S: Service>(f: &PsFactory<S, Self::T, Self::H>, q: &Qos, calls: Calls) -> Result<Publisher<S, Self::T, Self::H>, PublisherCreateError>;
    fn loan<S: Service>(p: &Publisher<S, Self::T, Self::H>, bytes: &[u8], nelem: usize) -> Result<SampleMut<S, Self::T, Self::H>, LoanError>;
    fn send_copy<S: Service>(p: &Publisher<S, Self::T, Self::H>, bytes: &[u8], nelem: usize) -> Result<usize, SendError>;
    fn loan_view<S: Service>(l: &SampleMut<S, Self::T, Self::H>) -> (usize, Vec<u8>);
    fn sample_view<S: Service>(s: &Sample<S, Self::T, Self::H>) -> Vec<u8>;
    fn recv<S: Service>(s: &Subscriber<S, Self::T, Self::H>) -> Result<Option<Sample<S, Self::T, Self::H>>, iceoryx2::port::ReceiveError>;
}

macro_rules! qos_builder {
    ($b:expr, $q:expr, $open:expr, $t:expr) => {{
        let b = $b
            .max_publishers($q.maxpubs)
            .max_subscribers($q.maxsubs)
            .subscriber_max_buffer_size($q.bufmax)
            .history_size($q.hist)
            .subscriber_max_borrowed_samples($q.borrow)
            .enable_safe_overflow($q.overflow)
            .max_nodes(MAX_NODES);
        if $open {
            b.open().map_err(|e| Er::R($t.rust("PublishSubscribeOpenError", e)))
        } else {
            b.create().map_err(|e| Er::R($t.rust("PublishSubscribeCreateError", e)))
        }
    }};
}

macro_rules! publisher_builder {
    ($b:expr, $q:expr, $calls:expr) => {{
        let b = $b.max_loaned_samples($q.loan);
        let calls: Calls = $calls;
        match $q.strategy.as_str() {
            "discard" => b.backpressure_strategy(BackpressureStrategy::DiscardData).create(),
            "retry_fail" => b
                .backpressure_strategy(BackpressureStrategy::RetryUntilDelivered)
                .set_backpressure_handler(move |info| {
                    calls.lock().unwrap().push(info.receiver_port_id);
                    if info.retries == 0 { BackpressureAction::Retry } else { BackpressureAction::DiscardDataAndFail }
                })
                .create(),
            _ => b
                .backpressure_strategy(BackpressureStrategy::RetryUntilDelivered)
                .set_backpressure_handler(move |info| {
                    calls.lock().unwrap().push(info.receiver_port_id);
                    if info.retries == 0 { BackpressureAction::Retry } else { BackpressureAction::DiscardData }
                })
                .create(),
        }
    }};
}

pub struct KU64;
impl RKind for KU64 {
    type T = u64;
    type H = ();
    fn service<S: Service>(node: &Node<S>, name: &ServiceName, q: &Qos, open: bool, t: &Table) -> Result<PsFactory<S, u64, ()>, Er> {
        qos_builder!(node.service_builder(name).publish_subscribe::<u64>(), q, open, t)
    }
    fn publisher<S: Service>(f: &PsFactory<S, u64, ()>, q: &Qos, calls: Calls) -> Result<Publisher<S, u64, ()>, PublisherCreateError> {
        publisher_builder!(f.publisher_builder(), q, calls)
    }
    fn loan<S: Service>(p: &Publisher<S, u64, ()>, bytes: &[u8], _n: usize) -> Result<SampleMut<S, u64, ()>, LoanError> {
        Ok(p.loan_uninit()?.write_payload(u64::from_le_bytes(bytes.try_into().expect("8 bytes"))))
    }
    fn send_copy<S: Service>(p: &Publisher<S, u64, ()>, bytes: &[u8], _n: usize) -> Result<usize, SendError> {
        p.send_copy(u64::from_le_bytes(bytes.try_into().expect("8 bytes")))
    }
    fn loan_view<S: Service>(l: &SampleMut<S, u64, ()>) -> (usize, Vec<u8>) {
        (l.payload() as *const u64 as usize, l.payload().to_le_bytes().to_vec())
    }
    fn sample_view<S: Service>(s: &Sample<S, u64, ()>) -> Vec<u8> {
        s.payload().to_le_bytes().to_vec()
    }
    fn recv<S: Service>(s: &Subscriber<S, Self::T, Self::H>) -> Result<Option<Sample<S, Self::T, Self::H>>, iceoryx2::port::ReceiveError> {
        s.receive()
    }
}

pub struct KSlice;
impl RKind for KSlice {
    type T = [u8];
    type H = ();
    fn service<S: Service>(node: &Node<S>, name: &ServiceName, q: &Qos, open: bool, t: &Table) -> Result<PsFactory<S, [u8], ()>, Er> {
        qos_builder!(node.service_builder(name).publish_subscribe::<[u8]>(), q, open, t)
    }
    fn publisher<S: Service>(f: &PsFactory<S, [u8], ()>, q: &Qos, calls: Calls) -> Result<Publisher<S, [u8], ()>, PublisherCreateError> {
        publisher_builder!(f.publisher_builder().initial_max_slice_len(q.spec.max_elems()), q, calls)
    }
    fn loan<S: Service>(p: &Publisher<S, [u8], ()>, bytes: &[u8], n: usize) -> Result<SampleMut<S, [u8], ()>, LoanError> {
        Ok(p.loan_slice_uninit(n)?.write_from_slice(bytes))
    }
    fn send_copy<S: Service>(p: &Publisher<S, [u8], ()>, bytes: &[u8], _n: usize) -> Result<usize, SendError> {
        // the Rust API has no copy-send for slices: loan + copy + send
        let l = p.loan_slice_uninit(bytes.len())?.write_from_slice(bytes);
        l.send()
    }
    fn loan_view<S: Service>(l: &SampleMut<S, [u8], ()>) -> (usize, Vec<u8>) {
        (l.payload().as_ptr() as usize, l.payload().to_vec())
    }
    fn sample_view<S: Service>(s: &Sample<S, [u8], ()>) -> Vec<u8> {
        s.payload().to_vec()
    }
    fn recv<S: Service>(s: &Subscriber<S, Self::T, Self::H>) -> Result<Option<Sample<S, Self::T, Self::H>>, iceoryx2::port::ReceiveError> {
        s.receive()
    }
}

/// the Rust custom-payload API: `[CustomPayloadMarker]` + explicit type details
pub struct KCustom;
impl KCustom {
    fn details(q: &Qos) -> TypeDetail {
        let v = if q.spec.dynamic() { TypeVariant::Dynamic } else { TypeVariant::FixedSize };
        type_detail(v, &q.spec.type_name(), q.spec.size, q.spec.align)
    }
}
impl RKind for KCustom {
    type T = [CustomPayloadMarker];
    type H = CustomHeaderMarker;
    fn service<S: Service>(node: &Node<S>, name: &ServiceName, q: &Qos, open: bool, t: &Table) -> Result<PsFactory<S, Self::T, Self::H>, Er> {
        let b = node.service_builder(name).publish_subscribe::<[CustomPayloadMarker]>().user_header::<CustomHeaderMarker>();
        let b = unsafe {
            b.__internal_set_payload_type_details(&Self::details(q))
                .__internal_set_user_header_type_details(&type_detail(TypeVariant::FixedSize, "()", 0, 1))
        };
        qos_builder!(b, q, open, t)
    }
    fn publisher<S: Service>(f: &PsFactory<S, Self::T, Self::H>, q: &Qos, calls: Calls) -> Result<Publisher<S, Self::T, Self::H>, PublisherCreateError> {
        if q.spec.dynamic() {
            publisher_builder!(f.publisher_builder().initial_max_slice_len(q.spec.max_elems()), q, calls)
        } else {
            publisher_builder!(f.publisher_builder(), q, calls)
        }
    }
    fn loan<S: Service>(p: &Publisher<S, Self::T, Self::H>, bytes: &[u8], n: usize) -> Result<SampleMut<S, Self::T, Self::H>, LoanError> {
        unsafe {
            let mut l = p.loan_custom_payload(n)?;
            let dst: &mut [MaybeUninit<CustomPayloadMarker>] = l.payload_mut();
            let k = dst.len().min(bytes.len());
            core::ptr::copy_nonoverlapping(bytes.as_ptr(), dst.as_mut_ptr() as *mut u8, k);
            Ok(l.assume_init())
        }
    }
    fn send_copy<S: Service>(p: &Publisher<S, Self::T, Self::H>, bytes: &[u8], n: usize) -> Result<usize, SendError> {
        // the typed copy API does not exist for custom payloads: loan + copy + send
        let l = Self::loan(p, bytes, n)?;
        l.send()
    }
    fn loan_view<S: Service>(l: &SampleMut<S, Self::T, Self::H>) -> (usize, Vec<u8>) {
        let p = l.payload();
        (p.as_ptr() as usize, unsafe { core::slice::from_raw_parts(p.as_ptr() as *const u8, p.len()) }.to_vec())
    }
    fn sample_view<S: Service>(s: &Sample<S, Self::T, Self::H>) -> Vec<u8> {
        let p = s.payload();
        unsafe { core::slice::from_raw_parts(p.as_ptr() as *const u8, p.len()) }.to_vec()
    }
    fn recv<S: Service>(s: &Subscriber<S, Self::T, Self::H>) -> Result<Option<Sample<S, Self::T, Self::H>>, iceoryx2::port::ReceiveError> {
        s.receive()
    }
}

struct RFac<S: Service, K: RKind> {
    f: PsFactory<S, K::T, K::H>,
    t: Arc<Table>,
}
struct RPub<S: Service, K: RKind> {
    p: Publisher<S, K::T, K::H>,
    t: Arc<Table>,
}
struct RLoan<S: Service, K: RKind> {
    l: SampleMut<S, K::T, K::H>,
    t: Arc<Table>,
}
struct RSub<S: Service, K: RKind> {
    s: Subscriber<S, K::T, K::H>,
    t: Arc<Table>,
}
struct RSample<S: Service, K: RKind> {
    s: Sample<S, K::T, K::H>,
}

impl<S: Service + 'static, K: RKind> Factory for RFac<S, K> {
    fn create_pub(&self, q: &Qos, calls: Calls) -> Result<Box<dyn PubPort>, Er> {
        match K::publisher(&self.f, q, calls) {
            Ok(p) => Ok(Box::new(RPub::<S, K> { p, t: self.t.clone() })),
            Err(e) => Err(Er::R(self.t.rust("PublisherCreateError", e))),
        }
    }
    fn create_sub(&self, buf: usize, req: usize) -> Result<Box<dyn SubPort>, Er> {
        match self.f.subscriber_builder().buffer_size(buf).history_request(req).create() {
            Ok(s) => Ok(Box::new(RSub::<S, K> { s, t: self.t.clone() })),
            Err(e) => Err(Er::R(self.t.rust("SubscriberCreateError", e))),
        }
    }
}
impl<S: Service + 'static, K: RKind> PubPort for RPub<S, K> {
    fn id(&self) -> u128 {
        self.p.id().value()
    }
    fn loan(&self, bytes: &[u8], nelem: usize) -> Result<Box<dyn LoanObj>, Er> {
        match K::loan(&self.p, bytes, nelem) {
            Ok(l) => Ok(Box::new(RLoan::<S, K> { l, t: self.t.clone() })),
            Err(e) => Err(Er::R(self.t.rust("LoanError", e))),
        }
    }
    fn send_copy(&self, bytes: &[u8], nelem: usize) -> Result<usize, Er> {
        K::send_copy(&self.p, bytes, nelem).map_err(|e| Er::R(self.t.rust("SendError", e)))
    }
    fn update(&self) -> Result<(), Er> {
        self.p.update_connections().map_err(|e| Er::R(self.t.rust("ConnectionFailure", e)))
    }
}
impl<S: Service + 'static, K: RKind> LoanObj for RLoan<S, K> {
    fn addr(&self) -> usize {
        K::loan_view(&self.l).0
    }
    fn bytes(&self) -> Vec<u8> {
        K::loan_view(&self.l).1
    }
    fn nelem(&self) -> u64 {
        self.l.header().number_of_elements()
    }
    fn pub_id(&self) -> u128 {
        self.l.header().publisher_id().value()
    }
    fn send(self: Box<Self>) -> Result<usize, Er> {
        let t = self.t.clone();
        self.l.send().map_err(|e| Er::R(t.rust("SendError", e)))
    }
}
impl<S: Service + 'static, K: RKind> SubPort for RSub<S, K> {
    fn recv(&self) -> Result<Option<Box<dyn SampleObj>>, Er> {
        match K::recv(&self.s) {
            Ok(Some(s)) => Ok(Some(Box::new(RSample::<S, K> { s }))),
            Ok(None) => Ok(None),
            Err(e) => Err(Er::R(self.t.rust("ReceiveError", e))),
        }
    }
    fn has(&self) -> Result<bool, Er> {
        self.s.has_samples().map_err(|e| Er::R(self.t.rust("ConnectionFailure", e)))
    }
}
impl<S: Service + 'static, K: RKind> SampleObj for RSample<S, K> {
    fn bytes(&self) -> Vec<u8> {
        K::sample_view(&self.s)
    }
    fn nelem(&self) -> u64 {
        self.s.header().number_of_elements()
    }
    fn pub_id(&self) -> u128 {
        self.s.header().publisher_id().value()
    }
}

fn rust_factory<S: Service + 'static>(node: &Node<S>, name: &ServiceName, q: &Qos, open: bool, t: &Arc<Table>) -> Result<Box<dyn Factory>, Er> {
    Ok(match q.spec.kind.as_str() {
        "u64" => Box::new(RFac::<S, KU64> { f: KU64::service(node, name, q, open, t)?, t: t.clone() }),
        "slice" => Box::new(RFac::<S, KSlice> { f: KSlice::service(node, name, q, open, t)?, t: t.clone() }),
        _ => Box::new(RFac::<S, KCustom> { f: KCustom::service(node, name, q, open, t)?, t: t.clone() }),
    })
}

// ---------------------------------------------------------------------------------------------
// C front end

struct CFac {
    h: iox2_port_factory_pub_sub_h,
    spec: PayloadSpec,
}
struct CPub {
    h: iox2_publisher_h,
    spec: PayloadSpec,
    _calls: Calls,
}
struct CLoan {
    h: iox2_sample_mut_h,
}
struct CSub {
    h: iox2_subscriber_h,
}
struct CSample {
    h: iox2_sample_h,
}

fn c_factory(node: &CNode, name: &str, q: &Qos, open: bool) -> Result<Box<dyn Factory>, Er> {
    unsafe {
        let sb = node.service_builder(name)?;
        let b = iox2_service_builder_pub_sub(sb);
        let tn = q.spec.type_name();
        let variant = if q.spec.dynamic() { iox2_type_variant_e::DYNAMIC } else { iox2_type_variant_e::FIXED_SIZE };
        let r = iox2_service_builder_pub_sub_set_payload_type_details(&b, variant, tn.as_ptr() as *const c_char, tn.len(), q.spec.size, q.spec.align);
        if r != IOX2_OK {
            return Err(Er::C("TypeDetailError", r));
        }
        iox2_service_builder_pub_sub_set_max_publishers(&b, q.maxpubs);
        iox2_service_builder_pub_sub_set_max_subscribers(&b, q.maxsubs);
        iox2_service_builder_pub_sub_set_subscriber_max_buffer_size(&b, q.bufmax);
        iox2_service_builder_pub_sub_set_history_size(&b, q.hist);
        iox2_service_builder_pub_sub_set_subscriber_max_borrowed_samples(&b, q.borrow);
        iox2_service_builder_pub_sub_set_enable_safe_overflow(&b, q.overflow);
        iox2_service_builder_pub_sub_set_max_nodes(&b, MAX_NODES);
        let mut h: iox2_port_factory_pub_sub_h = core::ptr::null_mut();
        if open {
            rc("PublishSubscribeOpenError", iox2_service_builder_pub_sub_open(b, core::ptr::null_mut(), &mut h))?;
        } else {
            rc("PublishSubscribeCreateError", iox2_service_builder_pub_sub_create(b, core::ptr::null_mut(), &mut h))?;
        }
        Ok(Box::new(CFac { h, spec: q.spec.clone() }))
    }
}

impl Drop for CFac {
    fn drop(&mut self) {
        unsafe { iox2_port_factory_pub_sub_drop(self.h) }
    }
}

extern "C" fn c_handler_fail(info: iox2_backpressure_info_h_ref, ctx: iox2_callback_context) -> iox2_backpressure_action_e {
    c_handler(info, ctx, iox2_backpressure_action_e::DISCARD_DATA_AND_FAIL)
}
extern "C" fn c_handler_discard(info: iox2_backpressure_info_h_ref, ctx: iox2_callback_context) -> iox2_backpressure_action_e {
    c_handler(info, ctx, iox2_backpressure_action_e::DISCARD_DATA)
}
fn c_handler(info: iox2_backpressure_info_h_ref, ctx: iox2_callback_context, last: iox2_backpressure_action_e) -> iox2_backpressure_action_e {
    unsafe {
        let calls = &*(ctx as *const Mutex<Vec<u128>>);
        let id = capi::buffer16(|b| iox2_backpressure_info_receiver_port_id(info, b));
        calls.lock().unwrap().push(id);
        if iox2_backpressure_info_retries(info) == 0 { iox2_backpressure_action_e::RETRY } else { last }
    }
}

impl Factory for CFac {
    fn create_pub(&self, q: &Qos, calls: Calls) -> Result<Box<dyn PubPort>, Er> {
        unsafe {
            let b = iox2_port_factory_pub_sub_publisher_builder(&self.h, core::ptr::null_mut());
            iox2_port_factory_publisher_builder_set_max_loaned_samples(&b, q.loan);
            if self.spec.dynamic() {
                iox2_port_factory_publisher_builder_set_initial_max_slice_len(&b, self.spec.max_elems());
            }
            let ctx = Arc::as_ptr(&calls) as *mut c_void;
            match q.strategy.as_str() {
                "discard" => iox2_port_factory_publisher_builder_backpressure_strategy(&b, iox2_backpressure_strategy_e::DISCARD_DATA),
                "retry_fail" => {
                    iox2_port_factory_publisher_builder_backpressure_strategy(&b, iox2_backpressure_strategy_e::RETRY_UNTIL_DELIVERED);
                    iox2_port_factory_publisher_builder_set_backpressure_handler(&b, c_handler_fail, ctx);
                }
                _ => {
                    iox2_port_factory_publisher_builder_backpressure_strategy(&b, iox2_backpressure_strategy_e::RETRY_UNTIL_DELIVERED);
                    iox2_port_factory_publisher_builder_set_backpressure_handler(&b, c_handler_discard, ctx);
                }
            }
            let mut h: iox2_publisher_h = core::ptr::null_mut();
            rc("PublisherCreateError", iox2_port_factory_publisher_builder_create(b, core::ptr::null_mut(), &mut h))?;
            Ok(Box::new(CPub { h, spec: self.spec.clone(), _calls: calls }))
        }
    }
    fn create_sub(&self, buf: usize, req: usize) -> Result<Box<dyn SubPort>, Er> {
        unsafe {
            let b = iox2_port_factory_pub_sub_subscriber_builder(&self.h, core::ptr::null_mut());
            iox2_port_factory_subscriber_builder_set_buffer_size(&b, buf);
            iox2_port_factory_subscriber_builder_set_history_request(&b, req);
            let mut h: iox2_subscriber_h = core::ptr::null_mut();
            rc("SubscriberCreateError", iox2_port_factory_subscriber_builder_create(b, core::ptr::null_mut(), &mut h))?;
            Ok(Box::new(CSub { h }))
        }
    }
}

impl Drop for CPub {
    fn drop(&mut self) {
        unsafe { iox2_publisher_drop(self.h) }
    }
}
impl PubPort for CPub {
    fn id(&self) -> u128 {
        unsafe {
            let mut idh: iox2_unique_publisher_id_h = core::ptr::null_mut();
            iox2_publisher_id(&self.h, core::ptr::null_mut(), &mut idh);
            capi::take_publisher_id(idh)
        }
    }
    fn loan(&self, bytes: &[u8], nelem: usize) -> Result<Box<dyn LoanObj>, Er> {
        unsafe {
            let mut h: iox2_sample_mut_h = core::ptr::null_mut();
            rc("LoanError", iox2_publisher_loan_slice_uninit(&self.h, core::ptr::null_mut(), &mut h, nelem))?;
            let l = CLoan { h };
            let mut p: *mut c_void = core::ptr::null_mut();
            iox2_sample_mut_payload_mut(&l.h, &mut p, core::ptr::null_mut());
            let avail = iox2_sample_mut_payload_number_of_bytes(&l.h);
            core::ptr::copy_nonoverlapping(bytes.as_ptr(), p as *mut u8, avail.min(bytes.len()));
            Ok(Box::new(l))
        }
    }
    fn send_copy(&self, bytes: &[u8], nelem: usize) -> Result<usize, Er> {
        unsafe {
            let mut n: usize = 0;
            let r = if self.spec.dynamic() {
                iox2_publisher_send_slice_copy(&self.h, bytes.as_ptr() as *const c_void, self.spec.size, nelem, &mut n)
            } else {
                iox2_publisher_send_copy(&self.h, bytes.as_ptr() as *const c_void, bytes.len(), &mut n)
            };
            rc("SendError", r)?;
            Ok(n)
        }
    }
    fn update(&self) -> Result<(), Er> {
        unsafe { rc("ConnectionFailure", iox2_publisher_update_connections(&self.h)) }
    }
}

unsafe fn header_fields(hh: iox2_publish_subscribe_header_h) -> (u128, u64) {
    unsafe {
        let ne = iox2_publish_subscribe_header_number_of_elements(&hh);
        let mut idh: iox2_unique_publisher_id_h = core::ptr::null_mut();
        iox2_publish_subscribe_header_publisher_id(&hh, core::ptr::null_mut(), &mut idh);
        let id = capi::take_publisher_id(idh);
        iox2_publish_subscribe_header_drop(hh);
        (id, ne)
    }
}

impl CLoan {
    fn header(&self) -> (u128, u64) {
        unsafe {
            let mut hh: iox2_publish_subscribe_header_h = core::ptr::null_mut();
            iox2_sample_mut_header(&self.h, core::ptr::null_mut(), &mut hh);
            header_fields(hh)
        }
    }
}
impl Drop for CLoan {
    fn drop(&mut self) {
        if !self.h.is_null() {
            unsafe { iox2_sample_mut_drop(self.h) }
        }
    }
}
impl LoanObj for CLoan {
    fn addr(&self) -> usize {
        unsafe {
            let mut p: *mut c_void = core::ptr::null_mut();
            iox2_sample_mut_payload_mut(&self.h, &mut p, core::ptr::null_mut());
            p as usize
        }
    }
    fn bytes(&self) -> Vec<u8> {
        unsafe {
            let mut p: *mut c_void = core::ptr::null_mut();
            iox2_sample_mut_payload_mut(&self.h, &mut p, core::ptr::null_mut());
            let n = iox2_sample_mut_payload_number_of_bytes(&self.h);
            core::slice::from_raw_parts(p as *const u8, n).to_vec()
        }
    }
    fn nelem(&self) -> u64 {
        self.header().1
    }
    fn pub_id(&self) -> u128 {
        self.header().0
    }
    fn send(mut self: Box<Self>) -> Result<usize, Er> {
        unsafe {
            let h = self.h;
            self.h = core::ptr::null_mut(); // ownership moves into the call, whatever it returns
            let mut n: usize = 0;
            rc("SendError", iox2_sample_mut_send(h, &mut n))?;
            Ok(n)
        }
    }
}

impl Drop for CSub {
    fn drop(&mut self) {
        unsafe { iox2_subscriber_drop(self.h) }
    }
}
impl SubPort for CSub {
    fn recv(&self) -> Result<Option<Box<dyn SampleObj>>, Er> {
        unsafe {
            let mut h: iox2_sample_h = core::ptr::null_mut();
            rc("ReceiveError", iox2_subscriber_receive(&self.h, core::ptr::null_mut(), &mut h))?;
            if h.is_null() { Ok(None) } else { Ok(Some(Box::new(CSample { h }))) }
        }
    }
    fn has(&self) -> Result<bool, Er> {
        unsafe {
            let mut v = false;
            rc("ConnectionFailure", iox2_subscriber_has_samples(&self.h, &mut v))?;
            Ok(v)
        }
    }
}
impl Drop for CSample {
    fn drop(&mut self) {
        unsafe { iox2_sample_drop(self.h) }
    }
}
impl CSample {
    fn header(&self) -> (u128, u64) {
        unsafe {
            let mut hh: iox2_publish_subscribe_header_h = core::ptr::null_mut();
            iox2_sample_header(&self.h, core::ptr::null_mut(), &mut hh);
            header_fields(hh)
        }
    }
}
impl SampleObj for CSample {
    fn bytes(&self) -> Vec<u8> {
        unsafe {
            let mut p: *const c_void = core::ptr::null();
            iox2_sample_payload(&self.h, &mut p, core::ptr::null_mut());
            let n = iox2_sample_payload_number_of_bytes(&self.h);
            core::slice::from_raw_parts(p as *const u8, n).to_vec()
        }
    }
    fn nelem(&self) -> u64 {
        self.header().1
    }
    fn pub_id(&self) -> u128 {
        self.header().0
    }
}

// ---------------------------------------------------------------------------------------------
// the world

struct PubEnt {
    api: &'static str,
    port: Box<dyn PubPort>,
    loans: Vec<(u64, Box<dyn LoanObj>)>,
    addrs: Vec<usize>,
}
struct SubEnt {
    api: &'static str,
    port: Option<Box<dyn SubPort>>,
    live: bool,
    held: Vec<(u64, Box<dyn SampleObj>)>,
}

type Observer<S> = PsFactory<S, [CustomPayloadMarker], CustomHeaderMarker>;

pub struct World<S: Service + 'static> {
    q: Qos,
    t: Arc<Table>,
    // participants' service handles (creator first)
    rnode: Option<Node<S>>,
    rfac: Option<Box<dyn Factory>>,
    cnode: Option<CNode>,
    cfac: Option<Box<dyn Factory>>,
    // Rust API observer of the registry
    onode: Option<Node<S>>,
    obs: Option<Observer<S>>,
    pubs: BTreeMap<u32, PubEnt>,
    subs: BTreeMap<u32, SubEnt>,
    pubids: HashMap<u128, u32>,
    next_id: u64,
    calls: Calls,
}

fn api_of(act: &Value, default: &'static str) -> &'static str {
    match act["api"].as_str() {
        Some("c") => "c",
        Some("rust") => "rust",
        _ => default,
    }
}

fn chunk_index(addrs: &mut Vec<usize>, addr: usize) -> usize {
    match addrs.iter().position(|a| *a == addr) {
        Some(i) => i,
        None => {
            addrs.push(addr);
            addrs.len() - 1
        }
    }
}

impl<S: Service + 'static> World<S> {
    fn u(v: &Value, k: &str) -> u64 {
        v[k].as_u64().unwrap_or(0)
    }

    fn counts(&self) -> (usize, usize) {
        match &self.obs {
            Some(o) => (o.dynamic_config().number_of_publishers(), o.dynamic_config().number_of_subscribers()),
            None => (0, 0),
        }
    }

    fn with_counts(&self, mut e: Value) -> Value {
        let (np, ns) = self.counts();
        let m = e.as_object_mut().unwrap();
        m.insert("np".into(), json!(np));
        m.insert("ns".into(), json!(ns));
        e
    }

    fn number_of_samples(&self, id: u128) -> usize {
        let mut n = 0usize;
        if let Some(o) = &self.obs {
            o.dynamic_config().list_publishers(|d| {
                if d.publisher_id.value() == id {
                    n = d.number_of_samples;
                }
                CallbackProgression::Continue
            });
        }
        n
    }

    fn factory(&self, api: &str) -> Option<&dyn Factory> {
        match api {
            "c" => self.cfac.as_deref(),
            _ => self.rfac.as_deref(),
        }
    }

    fn bad(&self) -> Vec<u64> {
        let mut bad = Vec::new();
        for s in self.subs.values() {
            if !s.live {
                continue; // the subscriber is gone: the publisher reclaims what it owned, nothing refers to it any more
            }
            for (id, smp) in &s.held {
                let (did, ok) = decode(&smp.bytes());
                if !ok || did != *id {
                    bad.push(*id);
                }
            }
        }
        for p in self.pubs.values() {
            for (id, l) in &p.loans {
                let (did, ok) = decode(&l.bytes());
                if !ok || did != *id {
                    bad.push(*id);
                }
            }
        }
        bad
    }

    fn loan_event(&self, a: &str, api: &str, p: u32, id: u64, c: i64, l: &dyn LoanObj, via: &str) -> Value {
        let b = l.bytes();
        let hp = self.pubids.get(&l.pub_id()).copied().unwrap_or(0);
        ev(a, api, json!({"p": p, "r": "ok", "id": id, "c": c, "dg": digest(&b), "len": b.len(), "ne": l.nelem(),
                          "hp": hp, "al": if l.addr() % self.q.spec.align == 0 { 1 } else { 0 }, "via": via}))
    }

    fn exec(&mut self, act: &Value) -> Vec<Value> {
        let a = act["a"].as_str().unwrap_or("");
        let mut out = Vec::new();
        let t = self.t.clone();
        match a {
            "create_pub" => {
                let p = Self::u(act, "p") as u32;
                let api = api_of(act, "rust");
                if p == 0 || self.pubs.contains_key(&p) || self.pubids.values().any(|x| *x == p) {
                    return out;
                }
                let Some(f) = self.factory(api) else { return out };
                match f.create_pub(&self.q, self.calls.clone()) {
                    Ok(port) => {
                        let pid = port.id();
                        let n = self.number_of_samples(pid);
                        self.pubids.insert(pid, p);
                        self.pubs.insert(p, PubEnt { api, port, loans: Vec::new(), addrs: Vec::new() });
                        out.push(self.with_counts(ev(a, api, json!({"p": p, "r": "ok", "n": n, "deg": "warn"}))));
                    }
                    Err(e) => out.push(self.with_counts(ev(a, api, json!({"p": p, "r": t.label(&e), "n": 0, "deg": "warn"})))),
                }
            }
            "drop_pub" => {
                let p = Self::u(act, "p") as u32;
                if let Some(mut pe) = self.pubs.remove(&p) {
                    let api = pe.api;
                    for (id, l) in pe.loans.drain(..) {
                        drop(l);
                        out.push(ev("drop_loan", api, json!({"p": p, "id": id})));
                    }
                    drop(pe);
                    out.push(self.with_counts(ev(a, api, json!({"p": p}))));
                }
            }
            "create_sub" => {
                let s = Self::u(act, "s") as u32;
                let api = api_of(act, "rust");
                if s == 0 || self.subs.contains_key(&s) {
                    return out;
                }
                let (buf, req) = (Self::u(act, "buf") as usize, Self::u(act, "req") as usize);
                let Some(f) = self.factory(api) else { return out };
                match f.create_sub(buf, req) {
                    Ok(port) => {
                        self.subs.insert(s, SubEnt { api, port: Some(port), live: true, held: Vec::new() });
                        out.push(self.with_counts(ev(a, api, json!({"s": s, "buf": buf, "req": req, "r": "ok", "deg": "warn"}))));
                    }
                    Err(e) => out.push(self.with_counts(ev(a, api, json!({"s": s, "buf": buf, "req": req, "r": t.label(&e), "deg": "warn"})))),
                }
            }
            "drop_sub" => {
                let s = Self::u(act, "s") as u32;
                let zombie = act["mode"].as_str() != Some("orderly");
                let Some(se) = self.subs.get_mut(&s) else { return out };
                if !se.live {
                    return out;
                }
                let api = se.api;
                if !zombie {
                    for (id, smp) in se.held.drain(..) {
                        drop(smp);
                        out.push(ev("drop_sample", api, json!({"s": s, "id": id})));
                    }
                }
                se.port = None; // samples that are still alive keep the receiver alive
                se.live = false;
                out.push(self.with_counts(ev(a, api, json!({"s": s}))));
            }
            "loan" => {
                let p = Self::u(act, "p") as u32;
                let id = self.next_id;
                let (nelem, nbytes) = self.q.spec.shape(id);
                let Some(pe) = self.pubs.get_mut(&p) else { return out };
                let api = pe.api;
                match pe.port.loan(&fill(id, nbytes), nelem) {
                    Ok(l) => {
                        let c = chunk_index(&mut pe.addrs, l.addr()) as i64;
                        pe.loans.push((id, l));
                        self.next_id += 1;
                        let pe = &self.pubs[&p];
                        let e = self.loan_event(a, api, p, id, c, pe.loans.last().unwrap().1.as_ref(), "loan");
                        out.push(e);
                    }
                    Err(e) => out.push(ev(a, api, json!({"p": p, "r": t.label(&e), "id": 0, "c": 0, "dg": 0, "len": 0, "ne": 0,
                                                          "hp": 0, "al": 1, "via": "loan"}))),
                }
            }
            "send" | "drop_loan" => {
                let p = Self::u(act, "p") as u32;
                let want = Self::u(act, "id");
                let Some(pe) = self.pubs.get_mut(&p) else { return out };
                if pe.loans.is_empty() {
                    return out;
                }
                let api = pe.api;
                let idx = pe.loans.iter().position(|(id, _)| *id == want).unwrap_or(0);
                let (id, l) = pe.loans.remove(idx);
                if a == "drop_loan" {
                    drop(l);
                    out.push(ev(a, api, json!({"p": p, "id": id})));
                } else {
                    self.calls.lock().unwrap().clear();
                    let res = l.send();
                    let mut blocked = self.calls.lock().unwrap().clone();
                    blocked.sort();
                    blocked.dedup();
                    match res {
                        Ok(n) => out.push(ev(a, api, json!({"p": p, "id": id, "r": "ok", "n": n, "blk": blocked.len(), "via": "send"}))),
                        Err(e) => out.push(ev(a, api, json!({"p": p, "id": id, "r": t.label(&e), "n": 0, "blk": blocked.len(), "via": "send"}))),
                    }
                }
            }
            "send_copy" => {
                // loan + send in one call: recorded as the loan/send pair it consists of
                let p = Self::u(act, "p") as u32;
                let id = self.next_id;
                let (nelem, nbytes) = self.q.spec.shape(id);
                let Some(pe) = self.pubs.get(&p) else { return out };
                let api = pe.api;
                let bytes = fill(id, nbytes);
                self.calls.lock().unwrap().clear();
                let res = pe.port.send_copy(&bytes, nelem);
                let mut blocked = self.calls.lock().unwrap().clone();
                blocked.sort();
                blocked.dedup();
                let cr = match &res {
                    Ok(_) => "ok".to_string(),
                    Err(e) => t.label(e),
                };
                let loan_ok = |id: u64| {
                    ev("loan", api, json!({"p": p, "r": "ok", "id": id, "c": -1, "dg": digest(&bytes), "len": bytes.len(), "ne": nelem,
                                           "hp": p, "al": 1, "via": "send_copy", "cr": cr}))
                };
                match res {
                    Ok(n) => {
                        self.next_id += 1;
                        out.push(loan_ok(id));
                        out.push(ev("send", api, json!({"p": p, "id": id, "r": "ok", "n": n, "blk": blocked.len(), "via": "send_copy"})));
                    }
                    Err(e) => {
                        let label = t.label(&e);
                        if let Some(inner) = label.strip_prefix("LoanError(").and_then(|x| x.strip_suffix(')')) {
                            // the loan half failed: no sample id is consumed
                            out.push(ev("loan", api, json!({"p": p, "r": inner, "id": 0, "c": 0, "dg": 0, "len": 0, "ne": 0, "hp": 0,
                                                             "al": 1, "via": "send_copy", "cr": label})));
                        } else {
                            self.next_id += 1;
                            out.push(loan_ok(id));
                            out.push(ev("send", api, json!({"p": p, "id": id, "r": label, "n": 0, "blk": blocked.len(), "via": "send_copy"})));
                        }
                    }
                }
            }
            "probe" => {
                // chunk-availability probe: loan until failure, then drop everything the probe loaned
                let p = Self::u(act, "p") as u32;
                let Some(pe) = self.pubs.get_mut(&p) else { return out };
                let api = pe.api;
                let (nelem, nbytes) = self.q.spec.shape(0);
                let mut got = Vec::new();
                let mut cs = Vec::new();
                let mut err = String::from("none");
                for i in 0..200u64 {
                    match pe.port.loan(&fill((1 << 20) + i, nbytes), nelem) {
                        Ok(l) => {
                            cs.push(chunk_index(&mut pe.addrs, l.addr()));
                            got.push(l);
                        }
                        Err(e) => {
                            err = t.label(&e);
                            break;
                        }
                    }
                }
                let cnt = got.len();
                drop(got);
                out.push(ev(a, api, json!({"p": p, "cnt": cnt, "r": err, "cs": cs})));
            }
            "update_pub" => {
                let p = Self::u(act, "p") as u32;
                let Some(pe) = self.pubs.get(&p) else { return out };
                let r = match pe.port.update() {
                    Ok(()) => "ok".to_string(),
                    Err(e) => t.label(&e),
                };
                out.push(ev(a, pe.api, json!({"p": p, "r": r})));
            }
            "recv" => {
                let s = Self::u(act, "s") as u32;
                let Some(se) = self.subs.get_mut(&s) else { return out };
                if !se.live {
                    return out;
                }
                let api = se.api;
                match se.port.as_ref().unwrap().recv() {
                    Ok(Some(smp)) => {
                        let b = smp.bytes();
                        let (id, ok) = decode(&b);
                        let p = self.pubids.get(&smp.pub_id()).copied().unwrap_or(0);
                        let ne = smp.nelem();
                        se.held.push((id, smp));
                        out.push(ev(a, api, json!({"s": s, "r": "some", "p": p, "id": id, "cok": if ok { 1 } else { 0 },
                                                   "dg": digest(&b), "len": b.len(), "ne": ne})));
                    }
                    Ok(None) => out.push(ev(a, api, json!({"s": s, "r": "none", "p": 0, "id": 0, "cok": 1, "dg": 0, "len": 0, "ne": 0}))),
                    Err(e) => out.push(ev(a, api, json!({"s": s, "r": t.label(&e), "p": 0, "id": 0, "cok": 1, "dg": 0, "len": 0, "ne": 0}))),
                }
            }
            "drop_sample" => {
                let s = Self::u(act, "s") as u32;
                let want = Self::u(act, "id");
                let Some(se) = self.subs.get_mut(&s) else { return out };
                if se.held.is_empty() {
                    return out;
                }
                let idx = se.held.iter().position(|(id, _)| *id == want).unwrap_or(0);
                let (id, smp) = se.held.remove(idx);
                drop(smp);
                out.push(ev(a, se.api, json!({"s": s, "id": id})));
            }
            "has" => {
                let s = Self::u(act, "s") as u32;
                let Some(se) = self.subs.get(&s) else { return out };
                if !se.live {
                    return out;
                }
                match se.port.as_ref().unwrap().has() {
                    Ok(v) => out.push(ev(a, se.api, json!({"s": s, "r": "ok", "v": if v { 1 } else { 0 }}))),
                    Err(e) => out.push(ev(a, se.api, json!({"s": s, "r": t.label(&e), "v": 0}))),
                }
            }
            _ => {}
        }
        out
    }

    /// releases everything in the requested order; returns the registry counts seen by the observer after
    /// the ports are gone (while a participant handle still keeps the service alive)
    fn teardown(&mut self, order: u64) -> Value {
        let drop_ports = |w: &mut World<S>| {
            for (_, mut p) in std::mem::take(&mut w.pubs) {
                p.loans.clear();
                drop(p);
            }
            for (_, mut s) in std::mem::take(&mut w.subs) {
                s.held.clear();
                drop(s);
            }
        };
        let drop_factories = |w: &mut World<S>| {
            w.rfac = None;
            w.cfac = None;
        };
        let drop_nodes = |w: &mut World<S>| {
            w.rnode = None;
            w.cnode = None;
        };
        let after_ports;
        match order {
            1 => {
                drop_nodes(self);
                drop_factories(self);
                drop_ports(self);
                after_ports = self.counts();
            }
            2 => {
                drop_factories(self);
                drop_ports(self);
                after_ports = self.counts();
                drop_nodes(self);
            }
            _ => {
                drop_ports(self);
                after_ports = self.counts();
                drop_factories(self);
                drop_nodes(self);
            }
        }
        self.obs = None;
        self.onode = None;
        json!({"np": after_ports.0, "ns": after_ports.1})
    }
}

fn rust_node<S: Service>(dom: &Domain) -> Node<S> {
    let mut config = Config::default();
    config.global.set_root_path(&Path::new(dom.root.as_bytes()).expect("root path"));
    config.global.prefix = FileName::new(dom.prefix.as_bytes()).expect("prefix");
    config.defaults.publish_subscribe.subscriber_expired_connection_buffer = 64;
    NodeBuilder::new().config(&config).create::<S>().expect("rust node")
}

pub fn run_job<S: Service + 'static>(dom: &Domain, name: &str, job: &Value, table: &Arc<Table>, tw: &mut TraceWriter, summary: &mut Summary) {
    let q = Qos::from_json(&job["cfg"]);
    let creator = job["creator"].as_str().unwrap_or("rust").to_string();
    let order = job["order"].as_u64().unwrap_or(0);
    let prog: Vec<Value> = job["program"].as_array().cloned().unwrap_or_default();
    let uses = |api: &str| creator == api || prog.iter().any(|a| a["api"].as_str() == Some(api));
    tw.emit(&json!({"k": "reset", "maxpubs": q.maxpubs, "maxsubs": q.maxsubs, "bufmax": q.bufmax, "hist": q.hist,
                    "borrow": q.borrow, "loan": q.loan, "overflow": if q.overflow { 1 } else { 0 }, "strategy": q.strategy,
                    "payload": q.payload, "variant": q.variant, "expbuf": 64, "service": name, "creator": creator, "order": order,
                    "mode": job["mode"].as_str().unwrap_or("")}));
    summary.runs += 1;
    let sname = ServiceName::new(name).expect("service name");
    let mut w = World::<S> {
        q: q.clone(),
        t: table.clone(),
        rnode: None,
        rfac: None,
        cnode: None,
        cfac: None,
        onode: None,
        obs: None,
        pubs: BTreeMap::new(),
        subs: BTreeMap::new(),
        pubids: HashMap::new(),
        next_id: 1,
        calls: Arc::new(Mutex::new(Vec::new())),
    };
    // service handles: the creator creates, the other front end (if it takes part) opens
    let setup = (|| -> Result<(), (String, Er)> {
        for (i, api) in [creator.as_str(), if creator == "c" { "rust" } else { "c" }].into_iter().enumerate() {
            if !uses(api) {
                continue;
            }
            let open = i == 1;
            if api == "c" {
                let node = CNode::new(&dom.root, &dom.prefix, &q.variant).map_err(|e| ("c:node".to_string(), e))?;
                let f = c_factory(&node, name, &q, open).map_err(|e| (format!("c:{}", if open { "open" } else { "create" }), e))?;
                w.cnode = Some(node);
                w.cfac = Some(f);
            } else {
                let node = rust_node::<S>(dom);
                let f = rust_factory(&node, &sname, &q, open, table).map_err(|e| (format!("rust:{}", if open { "open" } else { "create" }), e))?;
                w.rnode = Some(node);
                w.rfac = Some(f);
            }
        }
        let onode = rust_node::<S>(dom);
        let obs = KCustom::service(&onode, &sname, &q, true, table).map_err(|e| ("observer:open".to_string(), e))?;
        w.onode = Some(onode);
        w.obs = Some(obs);
        Ok(())
    })();
    if let Err((what, e)) = setup {
        tw.emit(&json!({"k": "op", "a": "service_error", "api": "-", "msg": format!("{what}: {}", table.label(&e)), "bad": []}));
        return;
    }
    let result = catch_unwind(AssertUnwindSafe(|| {
        for (step, act) in prog.iter().enumerate() {
            let events = w.exec(act);
            let n = events.len();
            for (i, mut e) in events.into_iter().enumerate() {
                let bad = if i + 1 == n { w.bad() } else { Vec::new() };
                e.as_object_mut().unwrap().insert("bad".into(), json!(bad));
                e.as_object_mut().unwrap().insert("i".into(), json!(step));
                summary.count(&e);
                tw.emit(&e);
            }
            tw.flush();
        }
    }));
    match result {
        Ok(()) => {
            let reg = catch_unwind(AssertUnwindSafe(|| w.teardown(order)));
            drop(w);
            let left = dom.listing();
            // names are reusable: the same service name can be created again in the same domain
            let reuse = catch_unwind(AssertUnwindSafe(|| {
                if creator == "c" {
                    match CNode::new(&dom.root, &dom.prefix, &q.variant).and_then(|n| c_factory(&n, name, &q, false).map(|f| (n, f))) {
                        Ok((n, f)) => {
                            drop(f);
                            drop(n);
                            "ok".to_string()
                        }
                        Err(e) => table.label(&e),
                    }
                } else {
                    let n = rust_node::<S>(dom);
                    match rust_factory(&n, &sname, &q, false, table) {
                        Ok(f) => {
                            drop(f);
                            "ok".to_string()
                        }
                        Err(e) => table.label(&e),
                    }
                }
            }))
            .unwrap_or_else(|_| "panic".to_string());
            *summary.counts.entry(format!("{creator}:teardown")).or_insert(0) += 1;
            tw.emit(&json!({"k": "end", "teardown": if reg.is_ok() { "ok" } else { "panic" },
                            "reg": reg.unwrap_or(json!({})), "left": left, "reuse": reuse}));
        }
        Err(p) => {
            let msg = p.downcast_ref::<String>().cloned().or_else(|| p.downcast_ref::<&str>().map(|s| s.to_string())).unwrap_or_else(|| "panic".into());
            summary.panics += 1;
            tw.emit(&json!({"k": "op", "a": "panic", "api": "-", "msg": msg, "bad": []}));
            std::mem::forget(w);
        }
    }
    dom.cleanup();
    std::fs::create_dir_all(&dom.root).ok();
}
