//! drv-ffi - property C18: one action vocabulary, two front ends (iceoryx2::prelude and the iox2_* C API).
//!
//!   drv-ffi exec --work DIR --jobs jobs.json --table table.ndjson --out trace.ndjson
//!       every job: {"pat": "ps"|"ev"|"rr", "cfg": {...}, "creator": "c"|"rust", "order": 0..2, "mode": "...",
//!                   "program": [{"a": ..., "api": "c"|"rust", ...}, ...]}
//!       executes the program in an isolated domain (unique prefix + root path under DIR), the participant of
//!       every action through the API it is tagged with, and records one event per API call in the format of
//!       the pub-sub / req-res / event drivers.  `--table` is the error table dumped by drv-ffitab: C return
//!       codes are translated through it.

extern crate iceoryx2_bb_loggers;

mod capi;
mod common;
mod ev;
mod ps;
mod rr;

use iceoryx2::prelude::*;
use std::sync::Arc;
use vlib::trace::TraceWriter;
use vlib::{Args, Value};

/// counting allocator: live blocks / bytes of this process (C18: "dropping a C handle releases exactly the object it
/// wraps (no leak, no double release)" - the same program leaves the same heap behind through either front end)
pub mod heap {
    use std::alloc::{GlobalAlloc, Layout, System};
    use std::sync::atomic::{AtomicI64, Ordering};
    pub static BLOCKS: AtomicI64 = AtomicI64::new(0);
    pub static BYTES: AtomicI64 = AtomicI64::new(0);
    pub struct Counting;
    unsafe impl GlobalAlloc for Counting {
        unsafe fn alloc(&self, l: Layout) -> *mut u8 {
            let p = unsafe { System.alloc(l) };
            if !p.is_null() {
                BLOCKS.fetch_add(1, Ordering::Relaxed);
                BYTES.fetch_add(l.size() as i64, Ordering::Relaxed);
            }
            p
        }
        unsafe fn dealloc(&self, p: *mut u8, l: Layout) {
            BLOCKS.fetch_sub(1, Ordering::Relaxed);
            BYTES.fetch_sub(l.size() as i64, Ordering::Relaxed);
            unsafe { System.dealloc(p, l) }
        }
    }
    pub fn now() -> (i64, i64) {
        (BLOCKS.load(Ordering::Relaxed), BYTES.load(Ordering::Relaxed))
    }
}

#[global_allocator]
static ALLOC: heap::Counting = heap::Counting;

fn main() {
    set_log_level(LogLevel::Fatal);
    std::panic::set_hook(Box::new(|_| {}));
    let args = Args::from_env();
    let cmd = args.positional(0).unwrap_or_default();
    if cmd != "exec" {
        eprintln!("usage: drv-ffi exec --work DIR --jobs FILE --table FILE --out FILE");
        std::process::exit(2);
    }
    let work = args.get_or("work", "/verif/work/ffi");
    let jobs: Vec<Value> =
        serde_json::from_str(&std::fs::read_to_string(args.get("jobs").expect("--jobs")).expect("read jobs")).expect("jobs json");
    let table = Arc::new(common::Table::load(&args.get("table").expect("--table")));
    let mut tw = TraceWriter::create(&args.get("out").expect("--out"));
    let mut summary = common::Summary::default();
    let pid = std::process::id();
    for (i, job) in jobs.iter().enumerate() {
        tw.flush();
        let before = heap::now();
        // short tag (base 36): the unix datagram socket of an ipc listener lives under this root and its path is
        // limited to 108 bytes
        let b36 = |mut n: u64| -> String {
            let d = b"0123456789abcdefghijklmnopqrstuvwxyz";
            let mut v = vec![];
            loop {
                v.push(d[(n % 36) as usize]);
                n /= 36;
                if n == 0 {
                    break;
                }
            }
            v.reverse();
            String::from_utf8(v).unwrap()
        };
        let dom = common::Domain::new(&work, &format!("{}x{}", b36(pid as u64), b36(i as u64)));
        let name = format!("vf/run/{i}");
        let local = job["cfg"]["variant"].as_str() == Some("local") || job["cfg"]["svc"].as_str() == Some("local");
        match job["pat"].as_str().unwrap_or("ps") {
            "ps" => {
                if local {
                    ps::run_job::<local::Service>(&dom, &name, job, &table, &mut tw, &mut summary)
                } else {
                    ps::run_job::<ipc::Service>(&dom, &name, job, &table, &mut tw, &mut summary)
                }
            }
            "ev" => {
                if local {
                    ev::run_job::<local::Service>(&dom, &name, job, &table, &mut tw, &mut summary)
                } else {
                    ev::run_job::<ipc::Service>(&dom, &name, job, &table, &mut tw, &mut summary)
                }
            }
            "rr" => {
                if local {
                    rr::run_job::<local::Service>(&dom, &name, i as u64 + 1, job, &table, &mut tw, &mut summary)
                } else {
                    rr::run_job::<ipc::Service>(&dom, &name, i as u64 + 1, job, &table, &mut tw, &mut summary)
                }
            }
            other => panic!("unknown pattern {other}"),
        }
        dom.cleanup();
        drop(dom);
        tw.flush();
        let after = heap::now();
        summary.heap.push((after.0 - before.0, after.1 - before.1));
    }
    tw.flush();
    println!("{}", summary.to_json(tw.lines));
}
