//! Real concurrency under the deterministic scheduler (vlib::sched): ONE publisher thread and ONE
//! subscriber thread work on ONE connection of a real service.
//!
//!   drv-pubsub conc --work DIR --jobs jobs.json --out trace.ndjson --mode dfs|random --bound B --runs N
//!
//! job = {"cfg": QoS (maxpubs = maxsubs = 1), "pre": [...], "pub": [...], "sub": [...], "post": [...]}
//!   pre / post  sequential programs executed before / after the concurrent phase (ports are created in `pre`)
//!   pub         calls of the publisher thread (loan, send, drop_loan, probe, update_pub)
//!   sub         calls of the subscriber thread (recv, drop_sample, has, update_sub)
//! Yield points are the instrumented atomic accesses inside the zero-copy connection (submission and
//! completion queue, used-chunk list, channel state); every execution is one schedule chosen by the
//! strategy (exhaustive DFS with a preemption bound, or seeded random walks).  Recorded per execution:
//!   reset, the `pre` calls, ONE record {"k":"conc","ops":[{"c":call stamp,"r":return stamp,"t":thread,"rec":call record}]}
//!   (stamps = positions in the scheduler's totally ordered log), the `post` calls, end.
//! The check turns the conc record into the alternatives of its linearizations (lib/vp.py).

use crate::world::{Kind, Qos, Summary, World};
use iceoryx2::prelude::*;
use std::sync::{Arc, Mutex};
use vlib::sched::{self, Dfs, LogEntry, Outcome, RandomWalk, RunConfig, Strategy};
use vlib::trace::TraceWriter;
use vlib::{Args, Value, json};

struct SendPtr<T>(*mut T);
unsafe impl<T> Send for SendPtr<T> {}
impl<T> Clone for SendPtr<T> {
    fn clone(&self) -> Self {
        SendPtr(self.0)
    }
}

fn filter() -> sched::SiteFilter {
    Arc::new(|s: &sched::Site| {
        s.file.ends_with("safely_overflowing_index_queue.rs")
            || s.file.ends_with("spsc/index_queue.rs")
            || s.file.ends_with("used_chunk_list.rs")
            || (s.file.ends_with("zero_copy_connection/common.rs") && s.width != 1)
    })
}

fn ops_of(job: &Value, key: &str) -> Vec<Value> {
    job[key].as_array().cloned().unwrap_or_default()
}

pub struct ConcStats {
    pub executions: u64,
    pub anomalies: u64,
    pub exhausted: bool,
    pub max_steps: usize,
    pub overlapping: u64,
}

/// One execution of the job under `strat`.
fn one<S: Service + 'static, K: Kind>(
    config: &Config,
    name: &str,
    q: &Qos,
    job: &Value,
    strat: &mut dyn Strategy,
    tw: &mut TraceWriter,
    summary: &mut Summary,
    stats: &mut ConcStats,
) {
    tw.emit(&q.reset_event(name, 0));
    summary.runs += 1;
    let mut world = match World::<S, K>::create(config, name, q) {
        Ok(w) => Box::new(w),
        Err(e) => {
            tw.emit(&json!({"k": "op", "a": "service_error", "msg": e, "bad": []}));
            return;
        }
    };
    for act in ops_of(job, "pre") {
        for e in world.exec_recorded(&act) {
            summary.count(&e);
            tw.emit(&e);
        }
    }
    let wp = SendPtr(&mut *world as *mut World<S, K>);
    let mut bodies: Vec<sched::Body> = vec![];
    for (t, key) in ["pub", "sub"].iter().enumerate() {
        let prog = ops_of(job, key);
        let wp = wp.clone();
        bodies.push(Box::new(move || {
            let wp = &wp;
            for (i, op) in prog.iter().enumerate() {
                sched::yield_api(op["a"].as_str().unwrap_or("?"));
                sched::log_api(json!({"k": "call", "t": t, "i": i}));
                // SAFETY: exactly one worker runs at a time; the publisher thread touches only the
                // publisher entries of the world, the subscriber thread only the subscriber entries
                let w: &mut World<S, K> = unsafe { &mut *wp.0 };
                let evs = w.exec_plain(op);
                sched::log_api(json!({"k": "ret", "t": t, "i": i, "evs": evs}));
            }
        }));
    }
    let cfg = RunConfig { ranges: vec![], max_steps: 20_000, record_atoms: false, yield_after: true, site_filter: Some(filter()) };
    let res = sched::run(cfg, bodies, strat);
    stats.executions += 1;
    stats.max_steps = stats.max_steps.max(res.schedule.len());
    // call / return stamps = positions in the totally ordered log
    let mut open: std::collections::HashMap<(u64, u64), usize> = std::collections::HashMap::new();
    let mut ops: Vec<Value> = vec![];
    for (pos, e) in res.log.iter().enumerate() {
        if let LogEntry::Api { ev, .. } = e {
            let key = (ev["t"].as_u64().unwrap_or(0), ev["i"].as_u64().unwrap_or(0));
            if ev["k"] == "call" {
                open.insert(key, pos);
            } else if let Some(c) = open.remove(&key) {
                for rec in ev["evs"].as_array().cloned().unwrap_or_default() {
                    summary.count(&rec);
                    ops.push(json!({"c": c, "r": pos, "t": key.0, "rec": rec}));
                }
            }
        }
    }
    let mut overlap = false;
    for a in &ops {
        for b in &ops {
            if a["t"] != b["t"] && a["c"].as_u64() < b["r"].as_u64() && b["c"].as_u64() < a["r"].as_u64() {
                overlap = true;
            }
        }
    }
    if overlap {
        stats.overlapping += 1;
    }
    let completed = res.outcome == Outcome::Completed && res.panics.is_empty();
    tw.emit(&json!({"k": "conc", "ops": ops, "sched_len": res.schedule.len()}));
    if !completed {
        stats.anomalies += 1;
        let msg = format!("concurrent phase: outcome {:?}, panics {:?}", res.outcome, res.panics);
        summary.panics += 1;
        tw.emit(&json!({"k": "op", "a": "panic", "msg": msg, "bad": []}));
        std::mem::forget(world);
        return;
    }
    for act in ops_of(job, "post") {
        for e in world.exec_recorded(&act) {
            summary.count(&e);
            tw.emit(&e);
        }
    }
    tw.emit(&json!({"k": "end"}));
    world.finish();
}

pub fn run_job<S: Service + 'static, K: Kind>(
    config: &Config,
    name_prefix: &str,
    q: &Qos,
    job: &Value,
    args: &Args,
    tw: &mut TraceWriter,
    summary: &mut Summary,
) -> Value {
    let mode = args.get_or("mode", "dfs");
    let bound = job["bound"].as_u64().unwrap_or(args.num("bound", 1)) as usize;
    let runs = job["runs"].as_u64().unwrap_or(args.num("runs", 400));
    let seed = vlib::seed_from_env();
    let mut stats = ConcStats { executions: 0, anomalies: 0, exhausted: false, max_steps: 0, overlapping: 0 };
    let counter = Mutex::new(0u64);
    let fresh = || {
        let mut c = counter.lock().unwrap();
        *c += 1;
        format!("{name_prefix}/{}", *c)
    };
    match mode.as_str() {
        "dfs" => {
            let mut dfs = Dfs::new(bound);
            loop {
                if !dfs.next_run() {
                    stats.exhausted = true;
                    break;
                }
                one::<S, K>(config, &fresh(), q, job, &mut dfs, tw, summary, &mut stats);
                if dfs.runs >= runs {
                    break;
                }
            }
        }
        _ => {
            let mut rng = vlib::rng::Rng::new(seed ^ 0x5EED);
            for _ in 0..runs {
                let mut s = RandomWalk { rng: vlib::rng::Rng::new(rng.next()), switch_percent: 20 };
                one::<S, K>(config, &fresh(), q, job, &mut s, tw, summary, &mut stats);
            }
        }
    }
    json!({"executions": stats.executions, "anomalies": stats.anomalies, "exhausted": stats.exhausted,
           "max_steps": stats.max_steps, "overlapping": stats.overlapping, "mode": mode, "bound": bound})
}
