//! The executable world: real ports of one publish-subscribe service, driven by a program.

use std::collections::{BTreeMap, HashMap};
use std::panic::{AssertUnwindSafe, catch_unwind};
use std::sync::{Arc, Mutex};

use iceoryx2::port::publisher::{Publisher, PublisherCreateError};
use iceoryx2::port::subscriber::{Subscriber, SubscriberCreateError};
use iceoryx2::port::update_connections::UpdateConnections;
use iceoryx2::port::{BackpressureAction, DegradationAction, LoanError, ReceiveError};
use iceoryx2_cal::named_concept::{NamedConceptBuilder, NamedConceptConfiguration, NamedConceptMgmt};
use iceoryx2_cal::zero_copy_connection::{ZeroCopyConnection, ZeroCopyConnectionBuilder};
use iceoryx2::prelude::*;
use iceoryx2::sample::Sample;
use iceoryx2::sample_mut::SampleMut;
use iceoryx2::service::port_factory::publish_subscribe::PortFactory as PsFactory;
use iceoryx2_bb_elementary_traits::testing::abandonable::Abandonable;
use vlib::rng::Rng;
use vlib::trace::TraceWriter;
use vlib::{Value, json};

pub const MAX_PUB_INSTANCES: u32 = 8;
pub const MAX_SUB_INSTANCES: u32 = 10;
const MAX_SLICE: usize = 24;

#[derive(Clone, Debug)]
pub struct Qos {
    pub maxpubs: usize,
    pub maxsubs: usize,
    pub bufmax: usize,
    pub hist: usize,
    pub borrow: usize,
    pub loan: usize,
    pub overflow: bool,
    pub strategy: String,
    pub payload: String,
    pub variant: String,
    /// defaults.publish_subscribe.subscriber_expired_connection_buffer of the node's config
    pub expbuf: usize,
    /// payload alignment override of the service (8 = none)
    pub align: usize,
}

impl Qos {
    pub fn from_json(v: &Value) -> Self {
        let n = |k: &str| v[k].as_u64().unwrap_or_else(|| panic!("cfg.{k} missing")) as usize;
        Qos {
            maxpubs: n("maxpubs"),
            maxsubs: n("maxsubs"),
            bufmax: n("bufmax"),
            hist: n("hist"),
            borrow: n("borrow"),
            loan: n("loan"),
            overflow: v["overflow"].as_u64().unwrap_or(0) == 1 || v["overflow"].as_bool().unwrap_or(false),
            strategy: v["strategy"].as_str().unwrap_or("discard").to_string(),
            payload: v["payload"].as_str().unwrap_or("u64").to_string(),
            variant: v["variant"].as_str().unwrap_or("ipc").to_string(),
            expbuf: v["expbuf"].as_u64().unwrap_or(64) as usize,
            align: v["align"].as_u64().unwrap_or(8) as usize,
        }
    }
    pub fn reset_event(&self, name: &str, seed: u64) -> Value {
        json!({"k": "reset", "maxpubs": self.maxpubs, "maxsubs": self.maxsubs, "bufmax": self.bufmax,
               "hist": self.hist, "borrow": self.borrow, "loan": self.loan,
               "overflow": if self.overflow { 1 } else { 0 }, "strategy": self.strategy,
               "payload": self.payload, "variant": self.variant, "expbuf": self.expbuf, "align": self.align,
               "service": name, "seed": seed})
    }
}

// ---------------------------------------------------------------------------------------------
// canaries: every payload is a function of the sample id

fn canary_u64(id: u64) -> u64 {
    (id << 32) | ((id.wrapping_mul(0x9E37_79B1) ^ 0x5A5A_5A5A) & 0xFFFF_FFFF)
}
fn slice_len(id: u64) -> usize {
    8 + ((id * 5) % 17) as usize
}
fn slice_byte(id: u64, i: usize) -> u8 {
    if i < 8 {
        (id >> (8 * i)) as u8
    } else {
        (id.wrapping_mul(31).wrapping_add(i as u64 * 7) & 0xFF) as u8
    }
}

/// State shared between a publisher's unable-to-deliver (backpressure) handler and the world:
/// `calls` = receiver ports the handler was invoked for during the current send; `nested` = the
/// script of the send in progress (runs calls of its own from inside the handler).
pub struct Hook {
    calls: Mutex<Vec<u128>>,
    nested: Mutex<Option<Box<dyn FnMut(u128, u64) -> BackpressureAction + Send>>>,
}
type HookRef = Arc<Hook>;

impl Hook {
    fn new() -> HookRef {
        Arc::new(Hook { calls: Mutex::new(Vec::new()), nested: Mutex::new(None) })
    }
    fn on_call(&self, receiver: u128, retries: u64, give_up: BackpressureAction) -> BackpressureAction {
        self.calls.lock().unwrap().push(receiver);
        let mut g = self.nested.lock().unwrap();
        if let Some(f) = g.as_mut() {
            return f(receiver, retries);
        }
        if retries == 0 { BackpressureAction::Retry } else { give_up }
    }
}

struct SendPtr<T>(*mut T);
unsafe impl<T> Send for SendPtr<T> {}

fn deg_action(deg: &str) -> DegradationAction {
    match deg {
        "ignore" => DegradationAction::Ignore,
        "fail" => DegradationAction::DegradeAndFail,
        _ => DegradationAction::Warn,
    }
}

/// The two payload kinds (fixed size `u64`, slices `[u8]` of varying length).
pub trait Kind: 'static + Sized {
    type T: ?Sized + core::fmt::Debug + IceoryxSend + 'static;
    fn create_service<S: Service>(node: &Node<S>, name: &ServiceName, q: &Qos) -> Result<PsFactory<S, Self::T, ()>, String>;
    fn create_publisher<S: Service>(f: &PsFactory<S, Self::T, ()>, q: &Qos, hook: HookRef, deg: &str) -> Result<Publisher<S, Self::T, ()>, PublisherCreateError>;
    fn create_subscriber<S: Service>(f: &PsFactory<S, Self::T, ()>, buf: usize, req: usize, deg: &str) -> Result<Subscriber<S, Self::T, ()>, SubscriberCreateError>;
    fn loan<S: Service>(p: &Publisher<S, Self::T, ()>, id: u64) -> Result<SampleMut<S, Self::T, ()>, LoanError>;
    fn loan_addr<S: Service>(l: &SampleMut<S, Self::T, ()>) -> usize;
    fn loan_ok<S: Service>(l: &SampleMut<S, Self::T, ()>, id: u64) -> bool;
    fn recv<S: Service>(s: &Subscriber<S, Self::T, ()>) -> Result<Option<Sample<S, Self::T, ()>>, ReceiveError>;
    /// (decoded id, payload equals the canary of that id)
    fn decode<S: Service>(s: &Sample<S, Self::T, ()>) -> (u64, bool);
    /// address of the sample's header (computed without touching the memory)
    fn sample_addr<S: Service>(s: &Sample<S, Self::T, ()>) -> usize {
        s.header() as *const _ as usize
    }
}

macro_rules! service_builder {
    ($node:expr, $name:expr, $q:expr, $t:ty) => {{
        let b = $node
            .service_builder($name)
            .publish_subscribe::<$t>()
            .max_publishers($q.maxpubs)
            .max_subscribers($q.maxsubs)
            .subscriber_max_buffer_size($q.bufmax)
            .history_size($q.hist)
            .subscriber_max_borrowed_samples($q.borrow)
            .enable_safe_overflow($q.overflow)
            .max_nodes(2);
        // over-aligned payloads: the chunk layout (and with it the place of the first chunk inside the
        // data segment) depends on the alignment
        let b = if $q.align > 8 { b.payload_alignment(Alignment::new($q.align).expect("alignment")) } else { b };
        b.create().map_err(|e| format!("{e:?}"))
    }};
}

macro_rules! publisher_builder {
    ($b:expr, $q:expr, $hook:expr, $deg:expr) => {{
        let b = $b.max_loaned_samples($q.loan);
        let b = match $deg {
            "warn" => b, // the default handler
            d => {
                let a = deg_action(d);
                b.set_degradation_handler(move |_cause, _info| a)
            }
        };
        let hook: HookRef = $hook;
        match $q.strategy.as_str() {
            "discard" => b.backpressure_strategy(BackpressureStrategy::DiscardData).create(),
            "retry_fail" => b
                .backpressure_strategy(BackpressureStrategy::RetryUntilDelivered)
                .set_backpressure_handler(move |info| {
                    hook.on_call(info.receiver_port_id, info.retries, BackpressureAction::DiscardDataAndFail)
                })
                .create(),
            _ => b
                .backpressure_strategy(BackpressureStrategy::RetryUntilDelivered)
                .set_backpressure_handler(move |info| {
                    hook.on_call(info.receiver_port_id, info.retries, BackpressureAction::DiscardData)
                })
                .create(),
        }
    }};
}

macro_rules! subscriber_builder {
    ($f:expr, $buf:expr, $req:expr, $deg:expr) => {{
        let b = $f.subscriber_builder().buffer_size($buf).history_request($req);
        match $deg {
            "warn" => b.create(),
            d => {
                let a = deg_action(d);
                b.set_degradation_handler(move |_cause, _info| a).create()
            }
        }
    }};
}

pub struct U64Kind;
impl Kind for U64Kind {
    type T = u64;
    fn create_service<S: Service>(node: &Node<S>, name: &ServiceName, q: &Qos) -> Result<PsFactory<S, u64, ()>, String> {
        service_builder!(node, name, q, u64)
    }
    fn create_publisher<S: Service>(f: &PsFactory<S, u64, ()>, q: &Qos, hook: HookRef, deg: &str) -> Result<Publisher<S, u64, ()>, PublisherCreateError> {
        publisher_builder!(f.publisher_builder(), q, hook, deg)
    }
    fn create_subscriber<S: Service>(f: &PsFactory<S, u64, ()>, buf: usize, req: usize, deg: &str) -> Result<Subscriber<S, u64, ()>, SubscriberCreateError> {
        subscriber_builder!(f, buf, req, deg)
    }
    fn loan<S: Service>(p: &Publisher<S, u64, ()>, id: u64) -> Result<SampleMut<S, u64, ()>, LoanError> {
        Ok(p.loan_uninit()?.write_payload(canary_u64(id)))
    }
    fn loan_addr<S: Service>(l: &SampleMut<S, u64, ()>) -> usize {
        l.payload() as *const u64 as usize
    }
    fn loan_ok<S: Service>(l: &SampleMut<S, u64, ()>, id: u64) -> bool {
        *l.payload() == canary_u64(id)
    }
    fn recv<S: Service>(s: &Subscriber<S, u64, ()>) -> Result<Option<Sample<S, u64, ()>>, ReceiveError> {
        s.receive()
    }
    fn decode<S: Service>(s: &Sample<S, u64, ()>) -> (u64, bool) {
        let v = *s.payload();
        let id = v >> 32;
        (id, v == canary_u64(id))
    }
}

pub struct SliceKind;
impl Kind for SliceKind {
    type T = [u8];
    fn create_service<S: Service>(node: &Node<S>, name: &ServiceName, q: &Qos) -> Result<PsFactory<S, [u8], ()>, String> {
        service_builder!(node, name, q, [u8])
    }
    fn create_publisher<S: Service>(f: &PsFactory<S, [u8], ()>, q: &Qos, hook: HookRef, deg: &str) -> Result<Publisher<S, [u8], ()>, PublisherCreateError> {
        publisher_builder!(f.publisher_builder().initial_max_slice_len(MAX_SLICE), q, hook, deg)
    }
    fn create_subscriber<S: Service>(f: &PsFactory<S, [u8], ()>, buf: usize, req: usize, deg: &str) -> Result<Subscriber<S, [u8], ()>, SubscriberCreateError> {
        subscriber_builder!(f, buf, req, deg)
    }
    fn loan<S: Service>(p: &Publisher<S, [u8], ()>, id: u64) -> Result<SampleMut<S, [u8], ()>, LoanError> {
        Ok(p.loan_slice_uninit(slice_len(id))?.write_from_fn(|i| slice_byte(id, i)))
    }
    fn loan_addr<S: Service>(l: &SampleMut<S, [u8], ()>) -> usize {
        l.payload().as_ptr() as usize
    }
    fn loan_ok<S: Service>(l: &SampleMut<S, [u8], ()>, id: u64) -> bool {
        let p = l.payload();
        p.len() == slice_len(id) && p.iter().enumerate().all(|(i, b)| *b == slice_byte(id, i))
    }
    fn recv<S: Service>(s: &Subscriber<S, [u8], ()>) -> Result<Option<Sample<S, [u8], ()>>, ReceiveError> {
        s.receive()
    }
    fn decode<S: Service>(s: &Sample<S, [u8], ()>) -> (u64, bool) {
        let p = s.payload();
        if p.len() < 8 {
            return (0, false);
        }
        let mut id = 0u64;
        for i in 0..8 {
            id |= (p[i] as u64) << (8 * i);
        }
        let ok = id < (1 << 40) && p.len() == slice_len(id) && p.iter().enumerate().all(|(i, b)| *b == slice_byte(id, i));
        (id, ok)
    }
}

// ---------------------------------------------------------------------------------------------

struct PubEnt<S: Service, K: Kind> {
    port: Publisher<S, K::T, ()>,
    loans: Vec<(u64, SampleMut<S, K::T, ()>)>,
    addrs: Vec<usize>,
    /// number_of_samples of the dynamic config
    n: usize,
    /// fault: the data segment was removed from the system
    broken: bool,
}

#[derive(PartialEq, Clone, Copy)]
enum SubState {
    Live,
    Abandoned,
    Dead,
}

struct SubEnt<S: Service, K: Kind> {
    port: Option<Subscriber<S, K::T, ()>>,
    state: SubState,
    held: Vec<(u64, Sample<S, K::T, ()>)>,
    buf: usize,
    id: u128,
}

#[derive(Default)]
pub struct Summary {
    pub runs: u64,
    pub panics: u64,
    pub counts: BTreeMap<String, u64>,
}

impl Summary {
    pub fn count(&mut self, ev: &Value) {
        let a = ev["a"].as_str().unwrap_or("?");
        let key = match ev.get("r").and_then(|r| r.as_str()) {
            Some(r) => format!("{a}:{r}"),
            None => match ev.get("act").and_then(|r| r.as_str()) {
                Some(r) => format!("{a}:{r}"),
                None => a.to_string(),
            },
        };
        *self.counts.entry(key).or_insert(0) += 1;
        if ev.get("bad").and_then(|b| b.as_array()).map(|b| !b.is_empty()).unwrap_or(false) {
            *self.counts.entry("canary_mismatch".into()).or_insert(0) += 1;
        }
    }
    pub fn to_json(&self, lines: u64) -> Value {
        json!({"runs": self.runs, "panics": self.panics, "events": lines, "counts": self.counts})
    }
}

type ForeignSender<S> = <<S as Service>::Connection as ZeroCopyConnection>::Sender;

pub struct World<S: Service, K: Kind> {
    node: Option<Node<S>>,
    pubs: BTreeMap<u32, PubEnt<S, K>>,
    subs: BTreeMap<u32, SubEnt<S, K>>,
    factory: PsFactory<S, K::T, ()>,
    config: Config,
    q: Qos,
    pubids: HashMap<u128, u32>,
    subids: HashMap<u128, u32>,
    /// fault: foreign senders occupying the sender side of a connection (publisher, subscriber)
    foreign: Vec<((u32, u32), ForeignSender<S>)>,
    next_id: u64,
    next_p: u32,
    next_s: u32,
    abandoned: u32,
    hook: HookRef,
    /// the action being executed (reported when the code under test panics)
    last: Value,
}

fn ev(a: &str, fields: Value) -> Value {
    let mut m = serde_json::Map::new();
    m.insert("k".into(), json!("op"));
    m.insert("a".into(), json!(a));
    if let Value::Object(f) = fields {
        for (k, v) in f {
            m.insert(k, v);
        }
    }
    Value::Object(m)
}

unsafe extern "C" {
    fn mincore(addr: *mut core::ffi::c_void, length: usize, vec: *mut u8) -> i32;
}

/// true iff [addr, addr+len) is mapped (a Sample whose connection was dropped points into an
/// unmapped data segment: reading it would kill the driver)
fn is_mapped(addr: usize, len: usize) -> bool {
    const PAGE: usize = 4096;
    let start = addr & !(PAGE - 1);
    let end = (addr + len + PAGE - 1) & !(PAGE - 1);
    let mut v = vec![0u8; (end - start) / PAGE];
    unsafe { mincore(start as *mut core::ffi::c_void, end - start, v.as_mut_ptr()) == 0 }
}

/// ConnectionFailure(..) / ConnectionError(..) carry the low-level cause: one name for the specification
fn norm_err(e: String) -> String {
    if e.starts_with("ConnectionFailure") || e.starts_with("ConnectionError") {
        "ConnectionFailure".into()
    } else {
        e
    }
}

const NESTED_OPS: [&str; 4] = ["recv", "drop_sample", "has", "update_sub"];

impl<S: Service + 'static, K: Kind> World<S, K> {
    fn new(factory: PsFactory<S, K::T, ()>, q: &Qos, config: &Config) -> Self {
        World {
            node: None,
            pubs: BTreeMap::new(),
            subs: BTreeMap::new(),
            factory,
            config: config.clone(),
            q: q.clone(),
            pubids: HashMap::new(),
            subids: HashMap::new(),
            foreign: Vec::new(),
            next_id: 1,
            next_p: 1,
            next_s: 1,
            abandoned: 0,
            hook: Hook::new(),
            last: Value::Null,
        }
    }

    /// node + service + empty world (the node lives as long as the world)
    pub fn create(config: &Config, name: &str, q: &Qos) -> Result<Self, String> {
        let config = job_config(config, q);
        let node = open_node::<S>(&config);
        let sname = ServiceName::new(name).expect("service name");
        let factory = K::create_service(&node, &sname, q)?;
        let mut w = Self::new(factory, q, &config);
        w.node = Some(node);
        Ok(w)
    }

    /// one program action; every event carries the digest of what is held (taken after the step)
    pub fn exec_recorded(&mut self, act: &Value) -> Vec<Value> {
        let mut events = self.exec(act);
        let n = events.len();
        for (i, e) in events.iter_mut().enumerate() {
            if e.get("bad").is_none() {
                let bad = if i + 1 == n { self.bad() } else { Vec::new() };
                e.as_object_mut().unwrap().insert("bad".into(), json!(bad));
            } else if i + 1 == n {
                e.as_object_mut().unwrap().insert("bad".into(), json!(self.bad()));
            }
        }
        events
    }

    /// one program action without digest (concurrent phase: the other thread's objects are not touched)
    pub fn exec_plain(&mut self, act: &Value) -> Vec<Value> {
        let mut events = self.exec(act);
        for e in events.iter_mut() {
            e.as_object_mut().unwrap().insert("bad".into(), json!([]));
        }
        events
    }

    pub fn finish(self) {
        self.teardown()
    }

    /// ids of held samples / loans whose bytes no longer equal their canary (or are not even mapped)
    fn bad(&self) -> Vec<u64> {
        let mut bad = Vec::new();
        for s in self.subs.values() {
            if s.state == SubState::Dead {
                continue; // the subscriber is gone: nothing refers to these chunks any more
            }
            for (id, smp) in &s.held {
                if !is_mapped(K::sample_addr(smp), 64) {
                    bad.push(*id);
                    continue;
                }
                let (did, ok) = K::decode(smp);
                if !ok || did != *id {
                    bad.push(*id);
                }
            }
        }
        for p in self.pubs.values() {
            for (id, l) in &p.loans {
                if !K::loan_ok(l, *id) {
                    bad.push(*id);
                }
            }
        }
        bad
    }

    fn chunk_index(addrs: &mut Vec<usize>, addr: usize) -> usize {
        match addrs.iter().position(|a| *a == addr) {
            Some(i) => i,
            None => {
                addrs.push(addr);
                addrs.len() - 1
            }
        }
    }

    fn u(v: &Value, k: &str) -> u64 {
        v[k].as_u64().unwrap_or(0)
    }

    fn deg_of(act: &Value) -> String {
        match act["deg"].as_str() {
            Some("ignore") => "ignore".into(),
            Some("fail") => "fail".into(),
            _ => "warn".into(),
        }
    }

    fn data_segment_cfg(&self) -> <S::SharedMemory as NamedConceptMgmt>::Configuration {
        <<S::SharedMemory as NamedConceptMgmt>::Configuration>::default()
            .prefix(&self.config.global.prefix)
            .suffix(&self.config.global.service.data_segment_suffix)
            .path_hint(self.config.global.root_path())
    }

    fn connection_cfg(&self) -> <S::Connection as NamedConceptMgmt>::Configuration {
        <<S::Connection as NamedConceptMgmt>::Configuration>::default()
            .prefix(&self.config.global.prefix)
            .suffix(&self.config.global.service.connection_suffix)
            .path_hint(self.config.global.root_path())
    }

    /// The send of a loan; with a script (`nest`) the unable-to-deliver handler executes calls of its
    /// own (subscriber calls only) and the send is recorded in its sub-steps.
    fn exec_send(&mut self, p: u32, id: u64, l: SampleMut<S, K::T, ()>, nest: Option<Vec<Value>>) -> Vec<Value> {
        let mut out = Vec::new();
        self.hook.calls.lock().unwrap().clear();
        let scripted = nest.is_some() && self.q.strategy != "discard";
        let events: Arc<Mutex<Vec<Value>>> = Arc::new(Mutex::new(Vec::new()));
        if scripted {
            let script = nest.unwrap();
            let this = SendPtr(self as *mut Self);
            let ev2 = events.clone();
            let may_fail = self.q.strategy == "retry_fail";
            let mut call_no = 0usize;
            let f = move |rid: u128, retries: u64| -> BackpressureAction {
                let this = &this;
                // SAFETY: the world is not touched by `exec_send` while the send runs
                let w: &mut Self = unsafe { &mut *this.0 };
                let s = w.subids.get(&rid).copied().unwrap_or(0);
                let mut evs = vec![ev("bp", json!({"s": s, "ri": retries, "bad": []}))];
                let entry = script.get(call_no).cloned().unwrap_or(Value::Null);
                call_no += 1;
                let mut act = entry["act"].as_str().map(|x| x.to_string());
                let ops: Vec<Value> = if let Some(seed) = entry["gen"].as_u64() {
                    let mut rng = Rng::new(seed);
                    let (ops, a) = w.gen_nested(&mut rng, s);
                    if act.is_none() {
                        act = Some(a);
                    }
                    ops
                } else {
                    entry["ops"].as_array().cloned().unwrap_or_default()
                };
                for op in &ops {
                    if !NESTED_OPS.contains(&op["a"].as_str().unwrap_or("")) {
                        continue;
                    }
                    for mut e in w.exec(op) {
                        e.as_object_mut().unwrap().insert("bad".into(), json!(w.bad()));
                        evs.push(e);
                    }
                }
                let act = match act.as_deref() {
                    Some("retry") => "retry",
                    Some("fail") if may_fail => "fail",
                    Some("discard") | Some("fail") => "discard",
                    _ => {
                        if retries == 0 {
                            "retry"
                        } else if may_fail {
                            "fail"
                        } else {
                            "discard"
                        }
                    }
                };
                evs.push(ev("bp_ret", json!({"act": act, "bad": []})));
                ev2.lock().unwrap().extend(evs);
                match act {
                    "retry" => BackpressureAction::Retry,
                    "discard" => BackpressureAction::DiscardData,
                    _ => BackpressureAction::DiscardDataAndFail,
                }
            };
            *self.hook.nested.lock().unwrap() = Some(Box::new(f));
            out.push(ev("send_begin", json!({"p": p, "id": id, "bad": []})));
        }
        let res = l.send();
        *self.hook.nested.lock().unwrap() = None;
        let mut blocked = self.hook.calls.lock().unwrap().clone();
        blocked.sort();
        blocked.dedup();
        let a = if scripted { "send_end" } else { "send" };
        out.extend(events.lock().unwrap().drain(..));
        match res {
            Ok(n) => out.push(ev(a, json!({"p": p, "id": id, "r": "ok", "n": n, "blk": blocked.len()}))),
            Err(e) => out.push(ev(a, json!({"p": p, "id": id, "r": norm_err(format!("{e:?}")), "n": 0, "blk": blocked.len()}))),
        }
        out
    }

    /// Executes one program action; returns the recorded events (the `bad` field is added by the caller
    /// where it is missing).
    fn exec(&mut self, act: &Value) -> Vec<Value> {
        let a = act["a"].as_str().unwrap_or("");
        let mut out = Vec::new();
        self.last = json!({"a": a, "s": Self::u(act, "s"), "p": Self::u(act, "p")});
        match a {
            "create_pub" => {
                let p = Self::u(act, "p") as u32;
                if p == 0 || self.pubs.contains_key(&p) || self.pubids.values().any(|x| *x == p) {
                    return out;
                }
                let deg = Self::deg_of(act);
                match K::create_publisher(&self.factory, &self.q, self.hook.clone(), &deg) {
                    Ok(port) => {
                        let mut n = 0usize;
                        let pid = port.id();
                        self.factory.dynamic_config().list_publishers(|d| {
                            if d.publisher_id == pid {
                                n = d.number_of_samples;
                            }
                            CallbackProgression::Continue
                        });
                        self.pubids.insert(pid.value(), p);
                        self.pubs.insert(p, PubEnt { port, loans: Vec::new(), addrs: Vec::new(), n, broken: false });
                        self.next_p = self.next_p.max(p + 1);
                        out.push(ev(a, json!({"p": p, "r": "ok", "n": n, "deg": deg})));
                    }
                    Err(e) => out.push(ev(a, json!({"p": p, "r": format!("{e:?}"), "n": 0, "deg": deg}))),
                }
            }
            "drop_pub" => {
                let p = Self::u(act, "p") as u32;
                if let Some(mut pe) = self.pubs.remove(&p) {
                    // orderly: every loan is returned before the port goes away
                    for (id, l) in pe.loans.drain(..) {
                        drop(l);
                        out.push(ev("drop_loan", json!({"p": p, "id": id})));
                    }
                    drop(pe);
                    out.push(ev(a, json!({"p": p})));
                }
            }
            "create_sub" => {
                let s = Self::u(act, "s") as u32;
                if s == 0 || self.subs.contains_key(&s) {
                    return out;
                }
                let (buf, req) = (Self::u(act, "buf") as usize, Self::u(act, "req") as usize);
                let deg = Self::deg_of(act);
                match K::create_subscriber(&self.factory, buf, req, &deg) {
                    Ok(port) => {
                        let id = port.id().value();
                        self.subids.insert(id, s);
                        self.subs.insert(s, SubEnt { port: Some(port), state: SubState::Live, held: Vec::new(), buf, id });
                        self.next_s = self.next_s.max(s + 1);
                        out.push(ev(a, json!({"s": s, "buf": buf, "req": req, "r": "ok", "deg": deg})));
                    }
                    Err(e) => out.push(ev(a, json!({"s": s, "buf": buf, "req": req, "r": format!("{e:?}"), "deg": deg}))),
                }
            }
            "drop_sub" => {
                let s = Self::u(act, "s") as u32;
                let zombie = act["mode"].as_str() != Some("orderly"); // the model keeps the Samples alive
                if let Some(se) = self.subs.get_mut(&s) {
                    if se.state != SubState::Live {
                        return out;
                    }
                    if !zombie {
                        for (id, smp) in se.held.drain(..) {
                            drop(smp);
                            out.push(ev("drop_sample", json!({"s": s, "id": id})));
                        }
                    }
                    se.port = None; // Samples that are still alive keep the receiver alive
                    se.state = SubState::Dead;
                    out.push(ev(a, json!({"s": s})));
                }
            }
            "abandon_sub" => {
                let s = Self::u(act, "s") as u32;
                if let Some(se) = self.subs.get_mut(&s) {
                    if se.state != SubState::Live {
                        return out;
                    }
                    if let Some(port) = se.port.take() {
                        port.abandon();
                    }
                    se.state = SubState::Abandoned;
                    self.abandoned += 1;
                    out.push(ev(a, json!({"s": s})));
                }
            }
            // fault: the data segment of a live publisher disappears from the system; receivers that
            // did not map it yet can no longer establish their side of the connection
            "break_seg" => {
                let p = Self::u(act, "p") as u32;
                let cfg = self.data_segment_cfg();
                if let Some(pe) = self.pubs.get_mut(&p) {
                    if pe.broken {
                        return out;
                    }
                    let name = FileName::new(pe.port.id().value().to_string().as_bytes()).expect("segment name");
                    match unsafe { <S::SharedMemory as NamedConceptMgmt>::remove_cfg(&name, &cfg) } {
                        Ok(true) => {
                            pe.broken = true;
                            out.push(ev(a, json!({"p": p})));
                        }
                        r => out.push(ev("fault_error", json!({"msg": format!("break_seg: {r:?}")}))),
                    }
                }
            }
            // fault: a foreign sender takes the sender side of the connection publisher -> subscriber
            // (possible only while the publisher has not attached itself)
            "occupy" => {
                let (p, s) = (Self::u(act, "p") as u32, Self::u(act, "s") as u32);
                if self.foreign.iter().any(|(k, _)| *k == (p, s)) {
                    return out;
                }
                let cfg = self.connection_cfg();
                if let (Some(pe), Some(se)) = (self.pubs.get(&p), self.subs.get(&s)) {
                    if se.state != SubState::Live {
                        return out;
                    }
                    let name = FileName::new(format!("{}_{}", pe.port.id().value(), se.id).as_bytes()).expect("connection name");
                    let r = <S::Connection as ZeroCopyConnection>::Builder::new(&name)
                        .config(&cfg)
                        .buffer_size(se.buf)
                        .receiver_max_borrowed_chunks_per_channel(self.q.borrow)
                        .enable_safe_overflow(self.q.overflow)
                        .number_of_chunks_per_segment(pe.n)
                        .max_supported_shared_memory_segments(1)
                        .number_of_channels(1)
                        .timeout(self.config.global.creation_timeout)
                        .create_sender();
                    if let Ok(fs) = r {
                        self.foreign.push(((p, s), fs));
                        out.push(ev(a, json!({"p": p, "s": s})));
                    }
                }
            }
            "loan" => {
                let p = Self::u(act, "p") as u32;
                let id = self.next_id;
                if let Some(pe) = self.pubs.get_mut(&p) {
                    match K::loan(&pe.port, id) {
                        Ok(l) => {
                            let c = Self::chunk_index(&mut pe.addrs, K::loan_addr(&l));
                            pe.loans.push((id, l));
                            self.next_id += 1;
                            out.push(ev(a, json!({"p": p, "r": "ok", "id": id, "c": c})));
                        }
                        Err(e) => out.push(ev(a, json!({"p": p, "r": format!("{e:?}"), "id": 0, "c": 0}))),
                    }
                }
            }
            "send" | "drop_loan" => {
                let p = Self::u(act, "p") as u32;
                let want = Self::u(act, "id");
                if let Some(pe) = self.pubs.get_mut(&p) {
                    if pe.loans.is_empty() {
                        return out;
                    }
                    let idx = pe.loans.iter().position(|(id, _)| *id == want).unwrap_or(0);
                    let (id, l) = pe.loans.remove(idx);
                    if a == "drop_loan" {
                        drop(l);
                        out.push(ev(a, json!({"p": p, "id": id})));
                    } else {
                        let nest = act.get("nest").and_then(|n| n.as_array()).cloned();
                        return self.exec_send(p, id, l, nest);
                    }
                }
            }
            "probe" => {
                let p = Self::u(act, "p") as u32;
                if let Some(pe) = self.pubs.get_mut(&p) {
                    let mut got = Vec::new();
                    let mut cs = Vec::new();
                    let mut err = String::from("none");
                    for i in 0..10_000u64 {
                        match K::loan(&pe.port, (1 << 20) + i) {
                            Ok(l) => {
                                cs.push(Self::chunk_index(&mut pe.addrs, K::loan_addr(&l)));
                                got.push(l);
                            }
                            Err(e) => {
                                err = format!("{e:?}");
                                break;
                            }
                        }
                    }
                    let cnt = got.len();
                    drop(got);
                    out.push(ev(a, json!({"p": p, "cnt": cnt, "r": err, "cs": cs})));
                }
            }
            "update_pub" => {
                let p = Self::u(act, "p") as u32;
                if let Some(pe) = self.pubs.get(&p) {
                    let r = match pe.port.update_connections() {
                        Ok(()) => "ok".to_string(),
                        Err(e) => norm_err(format!("ConnectionFailure({e:?})")),
                    };
                    out.push(ev(a, json!({"p": p, "r": r})));
                }
            }
            "recv" => {
                let s = Self::u(act, "s") as u32;
                if let Some(se) = self.subs.get_mut(&s) {
                    if se.state != SubState::Live {
                        return out;
                    }
                    let port = se.port.as_ref().unwrap();
                    match K::recv(port) {
                        Ok(Some(smp)) => {
                            let (id, ok) = K::decode(&smp);
                            let p = self.pubids.get(&smp.header().publisher_id().value()).copied().unwrap_or(0);
                            let p2 = self.pubids.get(&smp.origin().value()).copied().unwrap_or(0);
                            se.held.push((id, smp));
                            out.push(ev(a, json!({"s": s, "r": "some", "p": p, "id": id,
                                                  "cok": if ok && p == p2 { 1 } else { 0 }})));
                        }
                        Ok(None) => out.push(ev(a, json!({"s": s, "r": "none", "p": 0, "id": 0, "cok": 1}))),
                        Err(e) => out.push(ev(a, json!({"s": s, "r": norm_err(format!("{e:?}")), "p": 0, "id": 0, "cok": 1}))),
                    }
                }
            }
            "drop_sample" => {
                let s = Self::u(act, "s") as u32;
                let want = Self::u(act, "id");
                if let Some(se) = self.subs.get_mut(&s) {
                    if se.state == SubState::Abandoned || se.held.is_empty() {
                        return out;
                    }
                    let idx = se.held.iter().position(|(id, _)| *id == want).unwrap_or(0);
                    let (id, smp) = se.held.remove(idx);
                    drop(smp);
                    out.push(ev(a, json!({"s": s, "id": id})));
                }
            }
            "update_sub" => {
                let s = Self::u(act, "s") as u32;
                if let Some(se) = self.subs.get(&s) {
                    if let (SubState::Live, Some(port)) = (se.state, se.port.as_ref()) {
                        let r = match port.update_connections() {
                            Ok(()) => "ok".to_string(),
                            Err(e) => norm_err(format!("ConnectionFailure({e:?})")),
                        };
                        out.push(ev(a, json!({"s": s, "r": r})));
                    }
                }
            }
            "has" => {
                let s = Self::u(act, "s") as u32;
                if let Some(se) = self.subs.get(&s) {
                    if let (SubState::Live, Some(port)) = (se.state, se.port.as_ref()) {
                        match port.has_samples() {
                            Ok(v) => out.push(ev(a, json!({"s": s, "r": "ok", "v": if v { 1 } else { 0 }}))),
                            Err(e) => out.push(ev(a, json!({"s": s, "r": norm_err(format!("ConnectionFailure({e:?})")), "v": 0}))),
                        }
                    }
                }
            }
            _ => {}
        }
        out
    }

    // -----------------------------------------------------------------------------------------
    // the driver's own generator: knows the live objects

    /// Calls made from inside the unable-to-deliver handler that runs for subscriber `blocked`:
    /// the consumer catches up (returns what it holds, drains its buffer) - completely, partially or
    /// not at all - then the handler answers.
    fn gen_nested(&self, rng: &mut Rng, blocked: u32) -> (Vec<Value>, String) {
        let mut ops = Vec::new();
        let live_s: Vec<u32> = self.subs.iter().filter(|(_, s)| s.state == SubState::Live).map(|(k, _)| *k).collect();
        let mode = rng.below(4);
        if mode == 0 {
            // drain: everything the blocked subscriber owns goes back
            if let Some(se) = self.subs.get(&blocked) {
                for (id, _) in &se.held {
                    ops.push(json!({"a": "drop_sample", "s": blocked, "id": id}));
                }
                for _ in 0..se.buf + 1 {
                    ops.push(json!({"a": "recv", "s": blocked}));
                    ops.push(json!({"a": "drop_sample", "s": blocked, "id": 0}));
                }
            }
        } else if mode < 3 && !live_s.is_empty() {
            for _ in 0..rng.range(1, 4) {
                let s = if rng.chance(2, 3) && live_s.contains(&blocked) { blocked } else { *rng.pick(&live_s) };
                match rng.below(5) {
                    0 | 1 => ops.push(json!({"a": "recv", "s": s})),
                    2 | 3 => ops.push(json!({"a": "drop_sample", "s": s, "id": 0})),
                    _ => ops.push(json!({"a": "has", "s": s})),
                }
            }
        }
        let act = match rng.below(10) {
            0..=5 => "retry",
            6..=8 => "discard",
            _ => "fail",
        };
        (ops, act.to_string())
    }

    fn gen_action(&self, rng: &mut Rng, faults: bool) -> Value {
        let live_p: Vec<u32> = self.pubs.keys().copied().collect();
        let live_s: Vec<u32> = self.subs.iter().filter(|(_, s)| s.state == SubState::Live).map(|(k, _)| *k).collect();
        let with_loans: Vec<u32> = self.pubs.iter().filter(|(_, p)| !p.loans.is_empty()).map(|(k, _)| *k).collect();
        let with_held: Vec<u32> = self.subs.iter().filter(|(_, s)| s.state != SubState::Abandoned && !s.held.is_empty()).map(|(k, _)| *k).collect();
        let q = &self.q;
        // with a small expired-connection buffer publishers come and go more often
        let churn = q.expbuf < 8 && q.maxpubs > 1;
        let degs = ["warn", "warn", "ignore", "fail", "fail"];
        for _ in 0..200 {
            let w = rng.below(100);
            let act = match w {
                0..=3 if self.next_p <= MAX_PUB_INSTANCES && (live_p.len() < q.maxpubs || rng.chance(1, 5)) => {
                    let deg = if faults { *rng.pick(&degs) } else { "warn" };
                    json!({"a": "create_pub", "p": self.next_p, "deg": deg})
                }
                4 if !live_p.is_empty() && self.next_p <= MAX_PUB_INSTANCES => json!({"a": "drop_pub", "p": *rng.pick(&live_p)}),
                5 if churn && !live_p.is_empty() && self.next_p < MAX_PUB_INSTANCES => json!({"a": "drop_pub", "p": *rng.pick(&live_p)}),
                6..=11 if self.next_s <= MAX_SUB_INSTANCES && (live_s.len() + (self.abandoned as usize) < q.maxsubs || rng.chance(1, 5)) => {
                    // mostly legal arguments, sometimes one step beyond a limit
                    let buf = if rng.chance(1, 12) { q.bufmax + 1 } else { rng.range(1, q.bufmax as u64) as usize };
                    let maxreq = q.hist.min(buf);
                    let req = if rng.chance(1, 10) { maxreq + 1 } else { rng.range(0, maxreq as u64) as usize };
                    let deg = if faults { *rng.pick(&degs) } else { "warn" };
                    json!({"a": "create_sub", "s": self.next_s, "buf": buf, "req": req, "deg": deg})
                }
                12..=13 if !live_s.is_empty() && self.next_s <= MAX_SUB_INSTANCES => {
                    let mode = if rng.chance(1, 3) { "zombie" } else { "orderly" };
                    json!({"a": "drop_sub", "s": *rng.pick(&live_s), "mode": mode})
                }
                14 if faults && !live_p.is_empty() && rng.chance(1, 2) => {
                    if rng.chance(1, 2) || live_s.is_empty() {
                        json!({"a": "break_seg", "p": *rng.pick(&live_p)})
                    } else {
                        json!({"a": "occupy", "p": *rng.pick(&live_p), "s": *rng.pick(&live_s)})
                    }
                }
                15 if !live_s.is_empty() && self.abandoned == 0 && q.maxsubs > 1 && rng.chance(1, 4) => {
                    json!({"a": "abandon_sub", "s": *rng.pick(&live_s)})
                }
                16..=31 if !live_p.is_empty() => json!({"a": "loan", "p": *rng.pick(&live_p)}),
                32..=51 if !with_loans.is_empty() => {
                    let p = *rng.pick(&with_loans);
                    let l = &self.pubs[&p].loans;
                    let id = l[rng.below(l.len() as u64) as usize].0;
                    if q.strategy != "discard" && !q.overflow && rng.chance(1, 2) {
                        // the unable-to-deliver handler (if it runs) makes calls of its own
                        json!({"a": "send", "p": p, "id": id, "nest": [{"gen": rng.next() >> 16}, {"gen": rng.next() >> 16}, {"gen": rng.next() >> 16}]})
                    } else {
                        json!({"a": "send", "p": p, "id": id})
                    }
                }
                52..=54 if !with_loans.is_empty() => {
                    let p = *rng.pick(&with_loans);
                    let l = &self.pubs[&p].loans;
                    json!({"a": "drop_loan", "p": p, "id": l[rng.below(l.len() as u64) as usize].0})
                }
                55..=72 if !live_s.is_empty() => json!({"a": "recv", "s": *rng.pick(&live_s)}),
                73..=83 if !with_held.is_empty() => {
                    let s = *rng.pick(&with_held);
                    let h = &self.subs[&s].held;
                    json!({"a": "drop_sample", "s": s, "id": h[rng.below(h.len() as u64) as usize].0})
                }
                84..=85 if !live_p.is_empty() => json!({"a": "update_pub", "p": *rng.pick(&live_p)}),
                86..=87 if !live_s.is_empty() => json!({"a": "update_sub", "s": *rng.pick(&live_s)}),
                88..=92 if !live_s.is_empty() => json!({"a": "has", "s": *rng.pick(&live_s)}),
                93..=96 if !live_p.is_empty() => json!({"a": "probe", "p": *rng.pick(&live_p)}),
                _ => Value::Null,
            };
            if !act.is_null() {
                return act;
            }
        }
        json!({"a": "noop"})
    }

    fn teardown(mut self) {
        for (_, mut p) in std::mem::take(&mut self.pubs) {
            p.loans.clear();
            drop(p);
        }
        for (_, mut s) in std::mem::take(&mut self.subs) {
            if s.state == SubState::Abandoned {
                // leaked on purpose: the receiver side was abandoned, never run its cleanup
                for (_, smp) in s.held.drain(..) {
                    std::mem::forget(smp);
                }
            } else {
                s.held.clear();
            }
            drop(s);
        }
        self.foreign.clear();
        drop(self.node.take());
    }
}

fn open_node<S: Service>(config: &Config) -> Node<S> {
    NodeBuilder::new().config(config).create::<S>().expect("node")
}

fn job_config(config: &Config, q: &Qos) -> Config {
    let mut c = config.clone();
    c.defaults.publish_subscribe.subscriber_expired_connection_buffer = q.expbuf;
    c
}

/// (number of chunks of a publisher's data segment, capacity of the completion queue of a connection
/// with buffer size `bufmax`) as the RUNNING code creates them.  The completion queue capacity is
/// measured on the connection type of the service: send/receive/release without reclaim until the
/// release is refused.
pub fn probe_params<S: Service, K: Kind>(config: &Config, name: &str, q: &Qos) -> (usize, usize) {
    use iceoryx2_cal::shm_allocator::PointerOffset;
    use iceoryx2_cal::zero_copy_connection::{ChannelId, ZeroCopyReceiver, ZeroCopySender};
    let config = job_config(config, q);
    let node = open_node::<S>(&config);
    let sname = ServiceName::new(name).expect("service name");
    let factory = K::create_service(&node, &sname, q).expect("service");
    let port = K::create_publisher(&factory, q, Hook::new(), "warn").expect("publisher");
    let mut n = 0;
    let pid = port.id();
    factory.dynamic_config().list_publishers(|d| {
        if d.publisher_id == pid {
            n = d.number_of_samples;
        }
        CallbackProgression::Continue
    });
    drop(port);

    let total = q.bufmax + q.borrow + 8;
    let cname = FileName::new(format!("cqprobe_{}_{}", std::process::id(), name.replace('/', "_")).as_bytes()).expect("name");
    let ccfg = <<S::Connection as NamedConceptMgmt>::Configuration>::default()
        .prefix(&config.global.prefix)
        .suffix(&config.global.service.connection_suffix)
        .path_hint(config.global.root_path());
    let mk = || {
        <S::Connection as ZeroCopyConnection>::Builder::new(&cname)
            .config(&ccfg)
            .buffer_size(q.bufmax)
            .receiver_max_borrowed_chunks_per_channel(q.borrow)
            .enable_safe_overflow(q.overflow)
            .number_of_chunks_per_segment(total)
            .max_supported_shared_memory_segments(1)
            .number_of_channels(1)
            .timeout(config.global.creation_timeout)
    };
    let sender = mk().create_sender().expect("probe sender");
    let receiver = mk().create_receiver().expect("probe receiver");
    let ch = ChannelId::new(0);
    let mut cap = 0usize;
    for k in 0..total {
        if sender.try_send(PointerOffset::new(k * 8), 8, ch).is_err() {
            break;
        }
        match receiver.receive(ch) {
            Ok(Some(o)) => {
                if receiver.release(o, ch).is_err() {
                    break;
                }
                cap += 1;
            }
            _ => break,
        }
    }
    (n, cap)
}

pub fn run_job<S: Service + 'static, K: Kind>(
    config: &Config,
    name: &str,
    q: &Qos,
    job: &Value,
    tw: &mut TraceWriter,
    summary: &mut Summary,
) {
    let seed = job["gen"]["seed"].as_u64().unwrap_or(0);
    let faults = job["gen"]["faults"].as_u64().unwrap_or(0) == 1;
    tw.emit(&q.reset_event(name, seed));
    summary.runs += 1;
    let config = job_config(config, q);
    let node = open_node::<S>(&config);
    let sname = ServiceName::new(name).expect("service name");
    let factory = match K::create_service(&node, &sname, q) {
        Ok(f) => f,
        Err(e) => {
            tw.emit(&json!({"k": "op", "a": "service_error", "msg": e, "bad": []}));
            return;
        }
    };
    let mut world = World::<S, K>::new(factory, q, &config);
    let result = catch_unwind(AssertUnwindSafe(|| {
        let emit = |events: Vec<Value>, tw: &mut TraceWriter, summary: &mut Summary| {
            for e in events {
                summary.count(&e);
                tw.emit(&e);
            }
        };
        if let Some(prog) = job["program"].as_array() {
            for act in prog {
                let events = world.exec_recorded(act);
                emit(events, tw, summary);
            }
        } else {
            let steps = job["gen"]["steps"].as_u64().unwrap_or(100);
            let mut rng = Rng::new(seed);
            for _ in 0..steps {
                let act = world.gen_action(&mut rng, faults);
                let events = world.exec_recorded(&act);
                emit(events, tw, summary);
            }
        }
    }));
    match result {
        Ok(()) => {
            tw.emit(&json!({"k": "end"}));
            world.teardown();
        }
        Err(p) => {
            let msg = p
                .downcast_ref::<String>()
                .cloned()
                .or_else(|| p.downcast_ref::<&str>().map(|s| s.to_string()))
                .unwrap_or_else(|| "panic".into());
            summary.panics += 1;
            // the call that aborted and the class of the message (the trace specification explains exactly one
            // class, as a tagged known-defect shape)
            let at = world.last.clone();
            let cls = if msg.contains("Expired connection buffer exceeded") && msg.contains("still borrowed") {
                "expired-borrowed"
            } else {
                "other"
            };
            // the message of a fatal_panic starts with a debug dump of the whole port: keep its end
            let msg: String = {
                let cs: Vec<char> = msg.chars().collect();
                cs[cs.len().saturating_sub(400)..].iter().collect()
            };
            let e = json!({"k": "op", "a": "panic", "cls": cls, "at": at["a"].as_str().unwrap_or("?"),
                           "s": at["s"].as_u64().unwrap_or(0), "p": at["p"].as_u64().unwrap_or(0), "msg": msg, "bad": []});
            summary.count(&e);
            tw.emit(&e);
            tw.emit(&json!({"k": "end"}));
            *world.hook.nested.lock().unwrap_or_else(|e| e.into_inner()) = None;
            std::mem::forget(world);
        }
    }
}
