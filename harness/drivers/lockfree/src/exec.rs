//! Generic "explore schedules of a small concurrent program on a fresh object" helper.

use vlib::sched::{self, Dfs, LogEntry, Outcome, RandomWalk, Replay, RunConfig, Strategy};
use vlib::trace::TraceWriter;
use vlib::{Args, Value, json};

pub struct Case {
    pub ranges: Vec<(usize, usize)>,
    pub bodies: Vec<sched::Body>,
    /// evaluated after all threads have finished: the quiescent observation (object for `end`)
    pub finish: Box<dyn FnOnce() -> Value>,
}

pub struct ExecCfg {
    pub mode: String,
    pub bound: usize,
    pub runs: u64,
    pub atoms: bool,
    pub seed: u64,
    pub sched: Vec<usize>,
    pub max_steps: usize,
    pub switch_percent: u64,
    pub yield_after: bool,
}

impl ExecCfg {
    pub fn from_args(args: &Args) -> Self {
        // additionally yield after every load (plain accesses that follow a load become separable)
        sched::set_yield_after_loads(args.flag("yield-after-loads"));
        ExecCfg {
            mode: args.get_or("mode", "dfs"),
            bound: args.num("bound", 2) as usize,
            runs: args.num("runs", 1000),
            atoms: args.flag("atoms"),
            seed: vlib::seed_from_env(),
            sched: args
                .get_or("sched", "")
                .split(',')
                .filter(|s| !s.is_empty())
                .map(|s| s.parse().unwrap())
                .collect(),
            max_steps: args.num("max-steps", 5000) as usize,
            switch_percent: args.num("switch", 30),
            yield_after: args.flag("yield-after"),
        }
    }
}

pub struct Summary {
    pub executions: u64,
    pub anomalies: u64,
    pub exhausted: bool,
}

fn emit_run(out: &mut TraceWriter, reset: &Value, res: &sched::RunResult, atoms: bool, fin: Value) {
    out.emit(reset);
    for e in &res.log {
        match e {
            LogEntry::Api { ev, .. } => out.emit(ev),
            LogEntry::Atom { tid, site, rd, wr, ok } => {
                if atoms {
                    let mut v = site.to_json();
                    let o = v.as_object_mut().unwrap();
                    o.insert("k".into(), json!("atom"));
                    o.insert("t".into(), json!(tid));
                    o.insert("rd".into(), json!(rd));
                    o.insert("wr".into(), json!(wr));
                    o.insert("ok".into(), json!(ok));
                    out.emit(&v);
                }
            }
        }
    }
    let outcome = match &res.outcome {
        Outcome::Completed => "completed".to_string(),
        Outcome::Deadlock(t) => format!("deadlock{t:?}"),
        Outcome::StepLimit => "steplimit".to_string(),
    };
    let panics: Vec<Value> = res.panics.iter().map(|(t, m)| json!({"t":t,"msg":m})).collect();
    let mut end = json!({"k":"end","outcome":outcome,"sched":res.schedule,"panics":panics});
    if let (Some(o), Some(f)) = (end.as_object_mut(), fin.as_object()) {
        for (k, v) in f {
            o.insert(k.clone(), v.clone());
        }
    }
    out.emit(&end);
}

pub fn explore(cfg: &ExecCfg, out: &mut TraceWriter, reset: Value, mut make: impl FnMut() -> Case) -> Summary {
    let mut executions = 0u64;
    let mut anomalies = 0u64;
    let mut exhausted = false;
    let mut one = |strat: &mut dyn Strategy, out: &mut TraceWriter| {
        let case = make();
        let rc = RunConfig {
            ranges: case.ranges,
            max_steps: cfg.max_steps,
            record_atoms: cfg.atoms,
            yield_after: cfg.yield_after,
            site_filter: None,
        };
        let res = sched::run(rc, case.bodies, strat);
        if res.outcome != Outcome::Completed || !res.panics.is_empty() {
            anomalies += 1;
        }
        let fin = if res.outcome == Outcome::Completed { (case.finish)() } else { json!({}) };
        emit_run(out, &reset, &res, cfg.atoms, fin);
        executions += 1;
    };
    match cfg.mode.as_str() {
        "dfs" => {
            let mut dfs = Dfs::new(cfg.bound);
            loop {
                if !dfs.next_run() {
                    exhausted = true;
                    break;
                }
                one(&mut dfs, out);
                if dfs.runs >= cfg.runs {
                    break;
                }
            }
        }
        "random" => {
            let mut rng = vlib::rng::Rng::new(cfg.seed);
            for _ in 0..cfg.runs {
                let mut s = RandomWalk {
                    rng: vlib::rng::Rng::new(rng.next()),
                    switch_percent: cfg.switch_percent,
                };
                one(&mut s, out);
            }
        }
        "seq" => {
            let mut s = Replay::new(vec![]);
            one(&mut s, out);
        }
        "replay" => {
            let mut s = Replay::new(cfg.sched.clone());
            one(&mut s, out);
        }
        m => panic!("unknown mode {m}"),
    }
    out.flush();
    Summary { executions, anomalies, exhausted }
}
