//! Conformance driver for the lock-free building blocks (C03, C09, C10, C12).
//! Sub-commands: spsc …  (see each module)

extern crate iceoryx2_bb_loggers;

mod exec;
mod registry;
mod seqlock;
mod spsc;
mod uis;

fn main() {
    let args = vlib::Args::from_env();
    match args.positional(0).as_deref() {
        Some("spsc") => spsc::main(&args),
        Some("uis") => uis::main(&args),
        Some("seqlock") => seqlock::main(&args),
        Some("registry") => registry::main(&args),
        other => {
            eprintln!("unknown sub-command {other:?}");
            std::process::exit(2);
        }
    }
}
