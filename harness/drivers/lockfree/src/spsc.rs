//! SPSC queues under the deterministic scheduler.
//!
//!   drv-lockfree spsc --kind iq|oq|q|iqf|oqf --cap N --push P --pop C --mode dfs|random|seq
//!                     [--bound B] [--runs N] [--atoms] --out trace.ndjson
//!
//! Thread 0 pushes the values 1..=P, thread 1 pops C times. Every execution is written as
//! `reset`, then `call`/`ret` events in the global (serialised) order, optionally interleaved
//! with `atom` events, and closed by an `end` event carrying the schedule.

use iceoryx2_bb_lock_free::spsc::index_queue::{FixedSizeIndexQueue, IndexQueue};
use iceoryx2_bb_lock_free::spsc::queue::Queue;
use iceoryx2_bb_lock_free::spsc::safely_overflowing_index_queue::{
    FixedSizeSafelyOverflowingIndexQueue, SafelyOverflowingIndexQueue,
};
use std::sync::Arc;
use vlib::sched::{self, Dfs, LogEntry, Outcome, RandomWalk, Replay, RunConfig, Strategy};
use vlib::trace::TraceWriter;
use vlib::{Args, Value, json};

pub enum PushRes {
    Ok,
    Full,
    Evicted(u64),
}

pub trait Spsc: Send + Sync {
    fn push(&self, v: u64) -> PushRes;
    fn pop(&self) -> Option<u64>;
    fn range(&self) -> (usize, usize);
    fn len(&self) -> usize;
    /// acquire the consumer token, run `f` with a pop function that goes through the handle,
    /// drop the handle; false if the token could not be acquired
    fn with_consumer(&self, f: &mut dyn FnMut(&mut dyn FnMut() -> Option<u64>)) -> bool;
}

macro_rules! range_of {
    ($s:expr) => {
        ($s as *const _ as usize, core::mem::size_of_val($s))
    };
}

impl Spsc for IndexQueue {
    fn push(&self, v: u64) -> PushRes {
        if unsafe { IndexQueue::push(self, v) } { PushRes::Ok } else { PushRes::Full }
    }
    fn pop(&self) -> Option<u64> {
        unsafe { IndexQueue::pop(self) }
    }
    fn range(&self) -> (usize, usize) {
        range_of!(self)
    }
    fn len(&self) -> usize {
        IndexQueue::len(self)
    }
    fn with_consumer(&self, f: &mut dyn FnMut(&mut dyn FnMut() -> Option<u64>)) -> bool {
        sched::log_api(json!({"k":"tok","t":0,"a":"acq_begin"}));
        let c = self.acquire_consumer();
        sched::log_api(json!({"k":"tok","t":0,"a":"acq_end"}));
        match c {
            None => false,
            Some(mut c) => {
                f(&mut || c.pop());
                sched::log_api(json!({"k":"tok","t":0,"a":"rel_begin"}));
                drop(c);
                sched::log_api(json!({"k":"tok","t":0,"a":"rel_end"}));
                true
            }
        }
    }
}

impl<const N: usize> Spsc for FixedSizeIndexQueue<N> {
    fn push(&self, v: u64) -> PushRes {
        if unsafe { FixedSizeIndexQueue::push(self, v) } { PushRes::Ok } else { PushRes::Full }
    }
    fn pop(&self) -> Option<u64> {
        unsafe { FixedSizeIndexQueue::pop(self) }
    }
    fn range(&self) -> (usize, usize) {
        range_of!(self)
    }
    fn len(&self) -> usize {
        FixedSizeIndexQueue::len(self)
    }
    fn with_consumer(&self, f: &mut dyn FnMut(&mut dyn FnMut() -> Option<u64>)) -> bool {
        sched::log_api(json!({"k":"tok","t":0,"a":"acq_begin"}));
        let c = self.acquire_consumer();
        sched::log_api(json!({"k":"tok","t":0,"a":"acq_end"}));
        match c {
            None => false,
            Some(mut c) => {
                f(&mut || c.pop());
                sched::log_api(json!({"k":"tok","t":0,"a":"rel_begin"}));
                drop(c);
                sched::log_api(json!({"k":"tok","t":0,"a":"rel_end"}));
                true
            }
        }
    }
}

impl Spsc for SafelyOverflowingIndexQueue {
    fn push(&self, v: u64) -> PushRes {
        match unsafe { SafelyOverflowingIndexQueue::push(self, v) } {
            None => PushRes::Ok,
            Some(e) => PushRes::Evicted(e),
        }
    }
    fn pop(&self) -> Option<u64> {
        unsafe { SafelyOverflowingIndexQueue::pop(self) }
    }
    fn range(&self) -> (usize, usize) {
        range_of!(self)
    }
    fn len(&self) -> usize {
        SafelyOverflowingIndexQueue::len(self)
    }
    fn with_consumer(&self, f: &mut dyn FnMut(&mut dyn FnMut() -> Option<u64>)) -> bool {
        sched::log_api(json!({"k":"tok","t":0,"a":"acq_begin"}));
        let c = self.acquire_consumer();
        sched::log_api(json!({"k":"tok","t":0,"a":"acq_end"}));
        match c {
            None => false,
            Some(mut c) => {
                f(&mut || c.pop());
                sched::log_api(json!({"k":"tok","t":0,"a":"rel_begin"}));
                drop(c);
                sched::log_api(json!({"k":"tok","t":0,"a":"rel_end"}));
                true
            }
        }
    }
}

impl<const N: usize> Spsc for FixedSizeSafelyOverflowingIndexQueue<N> {
    fn push(&self, v: u64) -> PushRes {
        match unsafe { FixedSizeSafelyOverflowingIndexQueue::push(self, v) } {
            None => PushRes::Ok,
            Some(e) => PushRes::Evicted(e),
        }
    }
    fn pop(&self) -> Option<u64> {
        unsafe { FixedSizeSafelyOverflowingIndexQueue::pop(self) }
    }
    fn range(&self) -> (usize, usize) {
        range_of!(self)
    }
    fn len(&self) -> usize {
        FixedSizeSafelyOverflowingIndexQueue::len(self)
    }
    fn with_consumer(&self, f: &mut dyn FnMut(&mut dyn FnMut() -> Option<u64>)) -> bool {
        sched::log_api(json!({"k":"tok","t":0,"a":"acq_begin"}));
        let c = self.acquire_consumer();
        sched::log_api(json!({"k":"tok","t":0,"a":"acq_end"}));
        match c {
            None => false,
            Some(mut c) => {
                f(&mut || c.pop());
                sched::log_api(json!({"k":"tok","t":0,"a":"rel_begin"}));
                drop(c);
                sched::log_api(json!({"k":"tok","t":0,"a":"rel_end"}));
                true
            }
        }
    }
}

impl<const N: usize> Spsc for Queue<u64, N> {
    fn push(&self, v: u64) -> PushRes {
        if unsafe { Queue::push(self, &v) } { PushRes::Ok } else { PushRes::Full }
    }
    fn pop(&self) -> Option<u64> {
        unsafe { Queue::pop(self) }
    }
    fn range(&self) -> (usize, usize) {
        range_of!(self)
    }
    fn len(&self) -> usize {
        Queue::len(self)
    }
    fn with_consumer(&self, f: &mut dyn FnMut(&mut dyn FnMut() -> Option<u64>)) -> bool {
        sched::log_api(json!({"k":"tok","t":0,"a":"acq_begin"}));
        let c = self.acquire_consumer();
        sched::log_api(json!({"k":"tok","t":0,"a":"acq_end"}));
        match c {
            None => false,
            Some(mut c) => {
                f(&mut || c.pop());
                sched::log_api(json!({"k":"tok","t":0,"a":"rel_begin"}));
                drop(c);
                sched::log_api(json!({"k":"tok","t":0,"a":"rel_end"}));
                true
            }
        }
    }
}

fn make(kind: &str, cap: usize) -> Arc<dyn Spsc> {
    macro_rules! by_cap {
        ($t:ident) => {
            match cap {
                1 => Arc::new($t::<1>::new()) as Arc<dyn Spsc>,
                2 => Arc::new($t::<2>::new()),
                3 => Arc::new($t::<3>::new()),
                4 => Arc::new($t::<4>::new()),
                _ => panic!("unsupported capacity {cap} for fixed-size kind"),
            }
        };
    }
    match kind {
        "iq" => Arc::new(IndexQueue::new(cap)),
        "oq" => Arc::new(SafelyOverflowingIndexQueue::new(cap)),
        "iqf" => by_cap!(FixedSizeIndexQueue),
        "oqf" => by_cap!(FixedSizeSafelyOverflowingIndexQueue),
        "q" => match cap {
            1 => Arc::new(Queue::<u64, 1>::new()) as Arc<dyn Spsc>,
            2 => Arc::new(Queue::<u64, 2>::new()),
            3 => Arc::new(Queue::<u64, 3>::new()),
            4 => Arc::new(Queue::<u64, 4>::new()),
            _ => panic!("unsupported capacity {cap}"),
        },
        _ => panic!("unknown kind {kind}"),
    }
}

fn producer_body(q: Arc<dyn Spsc>, pushes: u64) -> sched::Body {
    Box::new(move || {
        for v in 1..=pushes {
            sched::yield_api("push");
            sched::log_api(json!({"k":"call","t":0,"a":"push","v":v}));
            let r = q.push(v);
            let ev = match r {
                PushRes::Ok => json!({"k":"ret","t":0,"a":"push","r":"ok","v":0}),
                PushRes::Full => json!({"k":"ret","t":0,"a":"push","r":"full","v":0}),
                PushRes::Evicted(e) => json!({"k":"ret","t":0,"a":"push","r":"evicted","v":e}),
            };
            sched::log_api(ev);
        }
    })
}

fn consumer_body(q: Arc<dyn Spsc>, pops: u64) -> sched::Body {
    Box::new(move || {
        for _ in 0..pops {
            sched::yield_api("pop");
            sched::log_api(json!({"k":"call","t":1,"a":"pop","v":0}));
            let r = q.pop();
            let ev = match r {
                None => json!({"k":"ret","t":1,"a":"pop","r":"none","v":0}),
                Some(v) => json!({"k":"ret","t":1,"a":"pop","r":"some","v":v}),
            };
            sched::log_api(ev);
        }
    })
}

fn handover_consumer_body(q: Arc<dyn Spsc>, tid: usize, pops: u64) -> sched::Body {
    Box::new(move || {
        for _attempt in 0..30 {
            sched::yield_api("acquire_consumer");
            let done = q.with_consumer(&mut |pop| {
                for _ in 0..pops {
                    sched::yield_api("pop");
                    sched::log_api(json!({"k":"call","t":tid,"a":"pop","v":0}));
                    let r = pop();
                    let ev = match r {
                        None => json!({"k":"ret","t":tid,"a":"pop","r":"none","v":0}),
                        Some(v) => json!({"k":"ret","t":tid,"a":"pop","r":"some","v":v}),
                    };
                    sched::log_api(ev);
                }
            });
            if done {
                return;
            }
        }
    })
}

fn emit_run(
    out: &mut TraceWriter,
    kind: &str,
    cap: usize,
    res: &sched::RunResult,
    atoms: bool,
    final_len: usize,
) {
    out.emit(&json!({"k":"reset","kind":kind,"cap":cap}));
    for e in &res.log {
        match e {
            LogEntry::Api { ev, .. } => out.emit(ev),
            LogEntry::Atom { tid, site, rd, wr, ok } => {
                if atoms {
                    let mut v = site.to_json();
                    let o = v.as_object_mut().unwrap();
                    o.insert("k".into(), json!("atom"));
                    o.insert("t".into(), json!(tid));
                    o.insert("rd".into(), json!(rd));
                    o.insert("wr".into(), json!(wr));
                    o.insert("ok".into(), json!(ok));
                    out.emit(&v);
                }
            }
        }
    }
    let outcome = match &res.outcome {
        Outcome::Completed => "completed".to_string(),
        Outcome::Deadlock(t) => format!("deadlock{t:?}"),
        Outcome::StepLimit => "steplimit".to_string(),
    };
    let panics: Vec<Value> = res.panics.iter().map(|(t, m)| json!({"t":t,"msg":m})).collect();
    out.emit(&json!({"k":"end","outcome":outcome,"len":final_len,
                     "sched":res.schedule,"panics":panics}));
}

pub fn main(args: &Args) {
    let kind = args.get_or("kind", "oq");
    let cap = args.num("cap", 1) as usize;
    let pushes = args.num("push", 2);
    let pops = args.num("pop", 2);
    let mode = args.get_or("mode", "dfs");
    let bound = args.num("bound", 2) as usize;
    let runs = args.num("runs", 1000);
    let atoms = args.flag("atoms");
    let out_path = args.get_or("out", "/dev/stdout");
    let seed = vlib::seed_from_env();
    let mut out = TraceWriter::create(&out_path);

    let executions = std::cell::Cell::new(0u64);
    let anomalies = std::cell::Cell::new(0u64);
    let one = |strat: &mut dyn Strategy, out: &mut TraceWriter| {
        let q = make(&kind, cap);
        let cfg = RunConfig {
            ranges: vec![q.range()],
            max_steps: 5_000,
            record_atoms: atoms,
            yield_after: args.flag("yield-after"),
            site_filter: None,
        };
        let bodies = if args.flag("handover") {
            vec![
                producer_body(q.clone(), pushes),
                handover_consumer_body(q.clone(), 1, pops),
                handover_consumer_body(q.clone(), 2, pops),
            ]
        } else {
            vec![producer_body(q.clone(), pushes), consumer_body(q.clone(), pops)]
        };
        let res = sched::run(cfg, bodies, strat);
        if res.outcome != Outcome::Completed || !res.panics.is_empty() {
            anomalies.set(anomalies.get() + 1);
        }
        emit_run(out, &kind, cap, &res, atoms, q.len());
        executions.set(executions.get() + 1);
    };

    match mode.as_str() {
        "dfs" => {
            let mut dfs = Dfs::new(bound);
            while dfs.next_run() {
                one(&mut dfs, &mut out);
                if executions.get() >= runs {
                    break;
                }
            }
        }
        "random" => {
            let mut rng = vlib::rng::Rng::new(seed);
            for _ in 0..runs {
                let mut s = RandomWalk {
                    rng: vlib::rng::Rng::new(rng.next()),
                    switch_percent: 30,
                };
                one(&mut s, &mut out);
            }
        }
        "seq" => {
            // producer completely first, then the consumer (canonical sequential run)
            let mut s = Replay::new(vec![]);
            one(&mut s, &mut out);
        }
        "replay" => {
            let tids: Vec<usize> = args
                .get_or("sched", "")
                .split(',')
                .filter(|s| !s.is_empty())
                .map(|s| s.parse().unwrap())
                .collect();
            let mut s = Replay::new(tids);
            one(&mut s, &mut out);
        }
        _ => panic!("unknown mode"),
    }
    out.flush();
    println!(
        "{}",
        json!({"executions": executions.get(), "anomalies": anomalies.get(), "lines": out.lines,
               "kind": kind, "cap": cap, "push": pushes, "pop": pops, "mode": mode, "seed": seed})
    );
}
