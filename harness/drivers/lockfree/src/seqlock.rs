//! UnrestrictedAtomic (two-cell sequence lock of the blackboard) under the scheduler and
//! free-running (C12).
//!
//!   drv-lockfree seqlock --words W | --raw SIZE,ALIGN  --stores K --readers R --loads L
//!                        --api store|loan|mix --mode dfs|random|replay|free --out f
//!
//! Value k = every word (byte for --raw) of the payload equals k. Events: call/ret of `store`
//! (v = k) and `load` (v = first word, lo/hi = min/max over all words => lo = hi iff whole).

use crate::exec::{Case, ExecCfg, explore};
use iceoryx2_bb_lock_free::spmc::unrestricted_atomic::{
    __internal_calculate_atomic_mgmt_and_payload_ptr, UnrestrictedAtomic, UnrestrictedAtomicMgmt,
};
use std::sync::Arc;
use std::sync::atomic::{AtomicBool, AtomicU64, Ordering};
use vlib::sched;
use vlib::trace::TraceWriter;
use vlib::{Args, Value, json};

pub trait Reg: Send + Sync {
    fn store(&self, k: u64, loan: bool);
    /// (first, min, max)
    fn load(&self) -> (u64, u64, u64);
    fn range(&self) -> (usize, usize);
}

impl<const W: usize> Reg for UnrestrictedAtomic<[u64; W]> {
    fn store(&self, k: u64, loan: bool) {
        let p = self.acquire_producer().expect("single writer");
        if loan {
            unsafe {
                p.__internal_get_ptr_to_write_cell().write([k; W]);
                p.__internal_update_write_cell();
            }
        } else {
            p.store([k; W]);
        }
    }
    fn load(&self) -> (u64, u64, u64) {
        let v = UnrestrictedAtomic::load(self);
        (v[0], *v.iter().min().unwrap(), *v.iter().max().unwrap())
    }
    fn range(&self) -> (usize, usize) {
        (self as *const _ as usize, core::mem::size_of_val(self))
    }
}

/// The raw management API used by the blackboard for type-erased values.
pub struct Raw {
    mem: *mut u8,
    len: usize,
    mgmt: *const UnrestrictedAtomicMgmt,
    payload: *mut u8,
    size: usize,
    align: usize,
}
unsafe impl Send for Raw {}
unsafe impl Sync for Raw {}

impl Raw {
    fn new(size: usize, align: usize) -> Self {
        let len = UnrestrictedAtomicMgmt::__internal_get_unrestricted_atomic_size(size, align)
            + UnrestrictedAtomicMgmt::__internal_get_unrestricted_atomic_alignment(align)
            + 64;
        let mem: &'static mut [u8] = Box::leak(vec![0u8; len].into_boxed_slice());
        // deliberately odd start address
        let start = unsafe { mem.as_mut_ptr().add(1) };
        let ptrs = unsafe { __internal_calculate_atomic_mgmt_and_payload_ptr(start, align) };
        Raw {
            mem: mem.as_mut_ptr(),
            len,
            mgmt: ptrs.atomic_mgmt_ptr as *const UnrestrictedAtomicMgmt,
            payload: ptrs.atomic_payload_ptr,
            size,
            align,
        }
    }
}

impl Reg for Raw {
    fn store(&self, k: u64, _loan: bool) {
        let m = unsafe { &*self.mgmt };
        unsafe {
            m.__internal_acquire_producer().expect("single writer");
            let p = m.__internal_get_ptr_to_write_cell(self.size, self.align, self.payload);
            assert!(p as usize % self.align == 0, "write cell misaligned");
            assert!(p as usize >= self.mem as usize && p as usize + self.size <= self.mem as usize + self.len);
            core::ptr::write_bytes(p, k as u8, self.size);
            m.__internal_update_write_cell();
            m.__internal_release_producer();
        }
    }
    fn load(&self) -> (u64, u64, u64) {
        let m = unsafe { &*self.mgmt };
        let mut buf = vec![0u8; self.size + self.align];
        let off = buf.as_ptr().align_offset(self.align);
        unsafe { m.load(buf.as_mut_ptr().add(off), self.size, self.align, self.payload) };
        let v = &buf[off..off + self.size];
        (v[0] as u64, *v.iter().min().unwrap() as u64, *v.iter().max().unwrap() as u64)
    }
    fn range(&self) -> (usize, usize) {
        (self.mgmt as usize, core::mem::size_of::<UnrestrictedAtomicMgmt>())
    }
}

fn make(words: usize, raw: Option<(usize, usize)>) -> Arc<dyn Reg> {
    if let Some((s, a)) = raw {
        return Arc::new(Raw::new(s, a));
    }
    match words {
        1 => Arc::new(UnrestrictedAtomic::<[u64; 1]>::new([0; 1])) as Arc<dyn Reg>,
        2 => Arc::new(UnrestrictedAtomic::<[u64; 2]>::new([0; 2])),
        3 => Arc::new(UnrestrictedAtomic::<[u64; 3]>::new([0; 3])),
        9 => Arc::new(UnrestrictedAtomic::<[u64; 9]>::new([0; 9])),
        64 => Arc::new(UnrestrictedAtomic::<[u64; 64]>::new([0; 64])),
        _ => panic!("unsupported word count"),
    }
}

fn use_loan(api: &str, k: u64) -> bool {
    match api {
        "store" => false,
        "loan" => true,
        _ => k % 2 == 0,
    }
}

pub fn main(args: &Args) {
    let words = args.num("words", 2) as usize;
    let raw = args.get("raw").map(|s| {
        let v: Vec<usize> = s.split(',').map(|x| x.parse().unwrap()).collect();
        (v[0], v[1])
    });
    let stores = args.num("stores", 3);
    let readers = args.num("readers", 1) as usize;
    let loads = args.num("loads", 2);
    let api = args.get_or("api", "mix");
    let cfg = ExecCfg::from_args(args);
    let mut out = TraceWriter::create(&args.get_or("out", "/dev/stdout"));
    let reset = json!({"k":"reset","words":words,"raw": raw.is_some(),"readers":readers});

    if cfg.mode == "free" {
        free_running(words, raw, stores, readers, &api, reset, &mut out);
        return;
    }
    let s = explore(&cfg, &mut out, reset, || {
        let reg = make(words, raw);
        let mut bodies: Vec<sched::Body> = vec![];
        let r0 = reg.clone();
        let api2 = api.clone();
        bodies.push(Box::new(move || {
            for k in 1..=stores {
                sched::yield_api("store");
                sched::log_api(json!({"k":"call","t":0,"a":"store","v":k,"lo":0,"hi":0}));
                r0.store(k, use_loan(&api2, k));
                sched::log_api(json!({"k":"ret","t":0,"a":"store","v":k,"lo":0,"hi":0}));
            }
        }));
        for r in 1..=readers {
            let rr = reg.clone();
            bodies.push(Box::new(move || {
                for _ in 0..loads {
                    sched::yield_api("load");
                    sched::log_api(json!({"k":"call","t":r,"a":"load","v":0,"lo":0,"hi":0}));
                    let (v, lo, hi) = rr.load();
                    sched::log_api(json!({"k":"ret","t":r,"a":"load","v":v,"lo":lo,"hi":hi}));
                }
            }));
        }
        Case {
            ranges: vec![reg.range()],
            bodies,
            finish: Box::new(|| -> Value { json!({}) }),
        }
    });
    println!(
        "{}",
        json!({"executions": s.executions, "anomalies": s.anomalies, "exhausted": s.exhausted, "lines": out.lines,
               "words": words, "raw": raw.is_some(), "mode": cfg.mode, "seed": cfg.seed})
    );
}

/// Real threads without the scheduler; events are ordered by stamps from one SeqCst counter
/// taken immediately before the call and immediately after the return.
fn free_running(
    words: usize,
    raw: Option<(usize, usize)>,
    stores: u64,
    readers: usize,
    api: &str,
    reset: Value,
    out: &mut TraceWriter,
) {
    let reg = make(words, raw);
    let clock = Arc::new(AtomicU64::new(0));
    let done = Arc::new(AtomicBool::new(false));
    let mut handles = vec![];
    for r in 1..=readers {
        let (rr, c, d) = (reg.clone(), clock.clone(), done.clone());
        handles.push(std::thread::spawn(move || {
            let mut evs: Vec<(u64, Value)> = vec![];
            let mut n = 0u64;
            while !d.load(Ordering::SeqCst) || n < 10 {
                let s0 = c.fetch_add(1, Ordering::SeqCst);
                let (v, lo, hi) = rr.load();
                let s1 = c.fetch_add(1, Ordering::SeqCst);
                if evs.len() < 20_000 {
                    evs.push((s0, json!({"k":"call","t":r,"a":"load","v":0,"lo":0,"hi":0})));
                    evs.push((s1, json!({"k":"ret","t":r,"a":"load","v":v,"lo":lo,"hi":hi})));
                }
                n += 1;
                if n % 64 == 0 {
                    std::thread::yield_now();
                }
            }
            evs
        }));
    }
    let mut wevs: Vec<(u64, Value)> = vec![];
    for k in 1..=stores {
        let s0 = clock.fetch_add(1, Ordering::SeqCst);
        reg.store(k, use_loan(api, k));
        let s1 = clock.fetch_add(1, Ordering::SeqCst);
        wevs.push((s0, json!({"k":"call","t":0,"a":"store","v":k,"lo":0,"hi":0})));
        wevs.push((s1, json!({"k":"ret","t":0,"a":"store","v":k,"lo":0,"hi":0})));
        if k % 16 == 0 {
            std::thread::yield_now();
        }
    }
    done.store(true, Ordering::SeqCst);
    let mut all = wevs;
    for h in handles {
        all.extend(h.join().expect("reader thread"));
    }
    all.sort_by_key(|(s, _)| *s);
    out.emit(&reset);
    let mut loads = 0u64;
    for (_, e) in &all {
        if e["a"] == "load" && e["k"] == "ret" {
            loads += 1;
        }
        out.emit(e);
    }
    out.emit(&json!({"k":"end","outcome":"completed","sched":[],"panics":[]}));
    out.flush();
    println!(
        "{}",
        json!({"executions": 1, "anomalies": 0, "exhausted": false, "lines": out.lines, "loads": loads,
               "stores": stores, "words": words, "raw": raw.is_some(), "mode": "free"})
    );
}
