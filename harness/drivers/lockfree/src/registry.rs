//! mpmc::Container (the port registry of the dynamic service configuration) under the
//! scheduler and free-running (C10).
//!
//!   drv-lockfree registry --cap N --prog '<json>' --mode dfs|random|replay|free …
//!
//! prog = one op list per thread. Writer ops: "add", "rem<k>" (remove my k-th oldest live
//! entry), "rec<t>" (recover the entries of finished thread t). Reader op: "ref" (update_state).
//! Every add uses a fresh value v = 100*(t+1) + n stored as a tear-detecting payload.
//! Events: call {t,a,v}, ret {t,a,r,v,idx,chg,ent}; ent = list of [idx, value, ok].

use crate::exec::{Case, ExecCfg, explore};
use iceoryx2_bb_lock_free::mpmc::container::{ContainerHandle, ContainerState, FixedSizeContainer, OwnerId};
use iceoryx2_bb_lock_free::mpmc::unique_index_set_enums::ReleaseMode;
use iceoryx2_bb_elementary::CallbackProgression;
use std::sync::Arc;
use std::sync::atomic::{AtomicBool, AtomicU64, Ordering};
use vlib::sched;
use vlib::trace::TraceWriter;
use vlib::{Args, Value, json};

const K: u64 = 0x9E37_79B9;

#[derive(Debug, Clone, Copy)]
#[repr(C)]
pub struct Payload([u64; 4]);

impl Payload {
    fn new(x: u64) -> Self {
        Payload([x, !x, x.wrapping_mul(K), x ^ 0xA5A5_5A5A_A5A5_5A5A])
    }
    fn value(&self) -> u64 {
        self.0[0]
    }
    fn ok(&self) -> bool {
        let x = self.0[0];
        self.0[1] == !x && self.0[2] == x.wrapping_mul(K) && self.0[3] == x ^ 0xA5A5_5A5A_A5A5_5A5A
    }
}

pub trait Reg: Send + Sync {
    fn add(&self, v: u64, owner: u64) -> Result<ContainerHandle, &'static str>;
    fn remove(&self, h: ContainerHandle) -> &'static str;
    fn recover(&self, owner: u64) -> &'static str;
    fn state(&self) -> ContainerState<Payload>;
    fn update(&self, s: &mut ContainerState<Payload>) -> bool;
    fn range(&self) -> (usize, usize);
}

impl<const N: usize> Reg for FixedSizeContainer<Payload, N> {
    fn add(&self, v: u64, owner: u64) -> Result<ContainerHandle, &'static str> {
        match FixedSizeContainer::add(self, Payload::new(v), OwnerId::new(owner).unwrap()) {
            Ok((_, h)) => Ok(h),
            Err(iceoryx2_bb_lock_free::mpmc::container::ContainerAddFailure::OutOfSpace) => Err("full"),
            Err(iceoryx2_bb_lock_free::mpmc::container::ContainerAddFailure::IsLocked) => Err("locked"),
        }
    }
    fn remove(&self, h: ContainerHandle) -> &'static str {
        match unsafe { FixedSizeContainer::remove(self, h, ReleaseMode::Default) } {
            Ok(_) => "ok",
            Err(_) => "notowned",
        }
    }
    fn recover(&self, owner: u64) -> &'static str {
        unsafe { FixedSizeContainer::recover(self, OwnerId::new(owner).unwrap(), |_| true, ReleaseMode::Default) };
        "ok"
    }
    fn state(&self) -> ContainerState<Payload> {
        self.get_state()
    }
    fn update(&self, s: &mut ContainerState<Payload>) -> bool {
        unsafe { self.update_state(s) }
    }
    fn range(&self) -> (usize, usize) {
        (self as *const _ as usize, core::mem::size_of_val(self))
    }
}

fn make(cap: usize) -> Arc<dyn Reg> {
    match cap {
        1 => Arc::new(FixedSizeContainer::<Payload, 1>::new()) as Arc<dyn Reg>,
        2 => Arc::new(FixedSizeContainer::<Payload, 2>::new()),
        3 => Arc::new(FixedSizeContainer::<Payload, 3>::new()),
        4 => Arc::new(FixedSizeContainer::<Payload, 4>::new()),
        8 => Arc::new(FixedSizeContainer::<Payload, 8>::new()),
        _ => panic!("unsupported capacity"),
    }
}

fn entries(s: &ContainerState<Payload>) -> Vec<Value> {
    let mut v = vec![];
    s.for_each(|idx, p| {
        v.push(json!([idx, p.value(), p.ok()]));
        CallbackProgression::Continue
    });
    v
}

struct DoneGuard(Arc<Vec<AtomicBool>>, usize);
impl Drop for DoneGuard {
    fn drop(&mut self) {
        self.0[self.1].store(true, Ordering::SeqCst);
    }
}

type Log<'a> = &'a dyn Fn(Value);

fn run_ops(c: &Arc<dyn Reg>, tid: usize, ops: &[String], done: &Arc<Vec<AtomicBool>>, scheduled: bool, log: Log) {
    let _g = DoneGuard(done.clone(), tid);
    let owner = tid as u64 + 1;
    let mut live: Vec<(u64, ContainerHandle)> = vec![];
    let mut state: Option<ContainerState<Payload>> = None;
    let mut n = 0u64;
    for op in ops {
        if op == "add" {
            n += 1;
            let v = 1_000_000 * (tid as u64 + 1) + n;
            if scheduled {
                sched::yield_api("add");
            }
            log(json!({"k":"call","t":tid,"a":"add","v":v}));
            let r = c.add(v, owner);
            match r {
                Ok(h) => {
                    log(json!({"k":"ret","t":tid,"a":"add","r":"ok","v":v,"idx":h.index(),"chg":false,"ent":[]}));
                    live.push((v, h));
                }
                Err(e) => log(json!({"k":"ret","t":tid,"a":"add","r":e,"v":v,"idx":0,"chg":false,"ent":[]})),
            }
        } else if let Some(k) = op.strip_prefix("rem") {
            let k: usize = k.parse().unwrap_or(0);
            if k >= live.len() {
                continue;
            }
            let (v, h) = live.remove(k);
            if scheduled {
                sched::yield_api("rem");
            }
            log(json!({"k":"call","t":tid,"a":"rem","v":v}));
            let r = c.remove(h);
            log(json!({"k":"ret","t":tid,"a":"rem","r":r,"v":v,"idx":h.index(),"chg":false,"ent":[]}));
        } else if let Some(t) = op.strip_prefix("rec") {
            let target: usize = t.parse().unwrap();
            let d = done.clone();
            if scheduled {
                if !sched::block_until("owner-dead", move || d[target].load(Ordering::SeqCst)) {
                    return;
                }
                sched::yield_api("rec");
            } else {
                while !d[target].load(Ordering::SeqCst) {
                    std::thread::yield_now();
                }
            }
            log(json!({"k":"call","t":tid,"a":"rec","v":target + 1}));
            let r = c.recover(target as u64 + 1);
            log(json!({"k":"ret","t":tid,"a":"rec","r":r,"v":target + 1,"idx":0,"chg":false,"ent":[]}));
        } else if op == "ref" {
            if scheduled {
                sched::yield_api("ref");
            }
            log(json!({"k":"call","t":tid,"a":"ref","v":0}));
            let chg = match state.as_mut() {
                None => {
                    state = Some(c.state());
                    true
                }
                Some(s) => c.update(s),
            };
            let ent = entries(state.as_ref().unwrap());
            log(json!({"k":"ret","t":tid,"a":"ref","r":"ok","v":0,"idx":0,"chg":chg,"ent":ent}));
        } else {
            panic!("unknown op {op}");
        }
    }
}

pub fn main(args: &Args) {
    let cap = args.num("cap", 2) as usize;
    let prog: Vec<Vec<String>> =
        serde_json::from_str(&args.get_or("prog", r#"[["add","rem0","add"],["ref","ref"]]"#)).expect("bad --prog");
    let cfg = ExecCfg::from_args(args);
    let mut out = TraceWriter::create(&args.get_or("out", "/dev/stdout"));
    let reset = json!({"k":"reset","cap":cap,"n":prog.len()});
    if cfg.mode == "free" {
        let reps = args.num("reps", 200);
        free_running(cap, &prog, reps, reset, &mut out);
        return;
    }
    let s = explore(&cfg, &mut out, reset, || {
        let c = make(cap);
        let done = Arc::new((0..prog.len()).map(|_| AtomicBool::new(false)).collect::<Vec<_>>());
        let bodies = prog
            .iter()
            .enumerate()
            .map(|(t, ops)| {
                let (c, ops, done) = (c.clone(), ops.clone(), done.clone());
                Box::new(move || run_ops(&c, t, &ops, &done, true, &|v| sched::log_api(v))) as sched::Body
            })
            .collect();
        Case {
            ranges: vec![c.range()],
            bodies,
            finish: Box::new(|| -> Value { json!({}) }),
        }
    });
    println!(
        "{}",
        json!({"executions": s.executions, "anomalies": s.anomalies, "exhausted": s.exhausted, "lines": out.lines,
               "cap": cap, "mode": cfg.mode, "seed": cfg.seed, "prog": prog})
    );
}

/// real threads, each repeating its op list `reps` times on one shared container; events ordered
/// by SeqCst stamps taken before the call event and after the ret event
fn free_running(cap: usize, prog: &[Vec<String>], reps: u64, reset: Value, out: &mut TraceWriter) {
    let c = make(cap);
    let clock = Arc::new(AtomicU64::new(0));
    let done = Arc::new((0..prog.len()).map(|_| AtomicBool::new(false)).collect::<Vec<_>>());
    let mut handles = vec![];
    for (t, ops) in prog.iter().enumerate() {
        let (c, clock, done) = (c.clone(), clock.clone(), done.clone());
        // unroll: values must stay unique, so the op list is repeated inside one run_ops call
        let mut all: Vec<String> = vec![];
        for _ in 0..reps {
            all.extend(ops.iter().cloned());
        }
        handles.push(std::thread::spawn(move || {
            let evs = std::cell::RefCell::new(Vec::<(u64, Value)>::new());
            let log = |v: Value| {
                let s = clock.fetch_add(1, Ordering::SeqCst);
                evs.borrow_mut().push((s, v));
            };
            run_ops(&c, t, &all, &done, false, &log);
            evs.into_inner()
        }));
    }
    let mut all = vec![];
    for h in handles {
        all.extend(h.join().expect("thread"));
    }
    all.sort_by_key(|(s, _)| *s);
    out.emit(&reset);
    for (_, e) in &all {
        out.emit(e);
    }
    out.emit(&json!({"k":"end","outcome":"completed","sched":[],"panics":[]}));
    out.flush();
    println!("{}", json!({"executions": 1, "anomalies": 0, "exhausted": false, "lines": out.lines, "mode": "free", "cap": cap}));
}
