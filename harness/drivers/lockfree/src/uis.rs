//! Unique index sets (plain and crash-robust) and the pool allocator under the scheduler (C09).
//!
//!   drv-lockfree uis --kind plain|robust|pool --cap N --prog '<json>' --mode dfs|random|replay …
//!
//! `prog` = one op list per thread. Ops: "acq", "rel<k>" / "rell<k>" (release the k-th oldest
//! index this thread holds; `rell` = LockIfLastIndex), "rec<t>" (robust: recover the indices
//! owned by thread t, default mode), "recl<t>" (LockIfLastIndex), "obs" (observer:
//! `borrowed_indices()`, ret v = the count - on the robust set this WRITES the generation counter),
//! "il" (observer: `is_locked()`, ret r = "true" | "false").
//! Events: call {t,a,i,m}, ret {t,a,r,v,idx}; end {borrowed, locked}.

use crate::exec::{Case, ExecCfg, explore};
use iceoryx2_bb_lock_free::mpmc::robust_unique_index_set::{OwnerId, StaticRobustUniqueIndexSet};
use iceoryx2_bb_lock_free::mpmc::unique_index_set::FixedSizeUniqueIndexSet;
use iceoryx2_bb_lock_free::mpmc::unique_index_set_enums::{
    ReleaseMode, ReleaseState, UniqueIndexSetAcquireFailure,
};
use iceoryx2_bb_memory::pool_allocator::{Allocate, Deallocate, FixedSizePoolAllocator, Layout};
use std::sync::Arc;
use vlib::sched;
use vlib::trace::TraceWriter;
use vlib::{Args, Value, json};

pub enum AcqRes {
    Ok(u64),
    Full,
    Locked,
}

pub trait IndexSet: Send + Sync {
    fn acquire(&self, owner: u64) -> AcqRes;
    /// returns "unlocked" | "locked" | "notowner"
    fn release(&self, idx: u64, owner: u64, lock: bool) -> &'static str;
    fn recover(&self, owner: u64, lock: bool) -> (&'static str, Vec<u64>);
    fn borrowed(&self) -> u64;
    fn locked(&self) -> bool;
    fn range(&self) -> (usize, usize);
}

fn mode(lock: bool) -> ReleaseMode {
    if lock { ReleaseMode::LockIfLastIndex } else { ReleaseMode::Default }
}

fn rs(s: ReleaseState) -> &'static str {
    match s {
        ReleaseState::Locked => "locked",
        ReleaseState::Unlocked => "unlocked",
    }
}

impl<const N: usize> IndexSet for FixedSizeUniqueIndexSet<N> {
    fn acquire(&self, _owner: u64) -> AcqRes {
        match unsafe { self.acquire_raw_index() } {
            Ok(i) => AcqRes::Ok(i as u64),
            Err(UniqueIndexSetAcquireFailure::OutOfIndices) => AcqRes::Full,
            Err(UniqueIndexSetAcquireFailure::IsLocked) => AcqRes::Locked,
        }
    }
    fn release(&self, idx: u64, _owner: u64, lock: bool) -> &'static str {
        rs(unsafe { self.release_raw_index(idx as u32, mode(lock)) })
    }
    fn recover(&self, _owner: u64, _lock: bool) -> (&'static str, Vec<u64>) {
        panic!("plain set has no recover")
    }
    fn borrowed(&self) -> u64 {
        self.borrowed_indices() as u64
    }
    fn locked(&self) -> bool {
        self.is_locked()
    }
    fn range(&self) -> (usize, usize) {
        (self as *const _ as usize, core::mem::size_of_val(self))
    }
}

impl<const N: usize> IndexSet for StaticRobustUniqueIndexSet<N> {
    fn acquire(&self, owner: u64) -> AcqRes {
        match StaticRobustUniqueIndexSet::acquire(self, OwnerId::new(owner).unwrap()) {
            Ok(i) => AcqRes::Ok(i as u64),
            Err(UniqueIndexSetAcquireFailure::OutOfIndices) => AcqRes::Full,
            Err(UniqueIndexSetAcquireFailure::IsLocked) => AcqRes::Locked,
        }
    }
    fn release(&self, idx: u64, owner: u64, lock: bool) -> &'static str {
        match StaticRobustUniqueIndexSet::release(self, idx as usize, OwnerId::new(owner).unwrap(), mode(lock)) {
            Ok(s) => rs(s),
            Err(_) => "notowner",
        }
    }
    fn recover(&self, owner: u64, lock: bool) -> (&'static str, Vec<u64>) {
        let o = OwnerId::new(owner).unwrap();
        let mut got = vec![];
        let s = StaticRobustUniqueIndexSet::recover(self, mode(lock), |id, _| id == o, |_, idx| got.push(idx as u64));
        (rs(s), got)
    }
    fn borrowed(&self) -> u64 {
        self.borrowed_indices() as u64
    }
    fn locked(&self) -> bool {
        self.is_locked()
    }
    fn range(&self) -> (usize, usize) {
        (self as *const _ as usize, core::mem::size_of_val(self))
    }
}

/// The pool allocator seen as an index set: index = (ptr - start) / bucket size.
pub struct Pool<const N: usize> {
    alloc: Box<FixedSizePoolAllocator<N>>,
    base: usize,
    bucket: usize,
}

unsafe impl<const N: usize> Send for Pool<N> {}
unsafe impl<const N: usize> Sync for Pool<N> {}

const BUCKET: usize = 32;

impl<const N: usize> IndexSet for Pool<N> {
    fn acquire(&self, _owner: u64) -> AcqRes {
        match self.alloc.allocate(Layout::from_size_align(BUCKET, 8).unwrap()) {
            Ok(p) => {
                let a = p.as_ptr() as usize;
                // write a canary to provoke overlap effects
                unsafe { core::ptr::write_bytes(p.as_ptr(), 0xAB, BUCKET) };
                assert!(a >= self.base && (a - self.base) % self.bucket == 0, "misplaced allocation");
                AcqRes::Ok(((a - self.base) / self.bucket) as u64)
            }
            Err(_) => AcqRes::Full,
        }
    }
    fn release(&self, idx: u64, _owner: u64, _lock: bool) -> &'static str {
        let p = (self.base + idx as usize * self.bucket) as *mut u8;
        unsafe {
            self.alloc
                .deallocate(core::ptr::NonNull::new_unchecked(p), Layout::from_size_align(BUCKET, 8).unwrap())
        };
        "unlocked"
    }
    fn recover(&self, _owner: u64, _lock: bool) -> (&'static str, Vec<u64>) {
        panic!("pool has no recover")
    }
    fn borrowed(&self) -> u64 {
        u64::MAX
    }
    fn locked(&self) -> bool {
        false
    }
    fn range(&self) -> (usize, usize) {
        (&*self.alloc as *const _ as usize, core::mem::size_of_val(&*self.alloc))
    }
}

fn make_pool<const N: usize>(cap: usize) -> Arc<dyn IndexSet> {
    // externally owned, 8-byte aligned memory for exactly `cap` buckets of layout (32, 8)
    let mem: &'static mut [u64] = Box::leak(vec![0u64; cap * BUCKET / 8].into_boxed_slice());
    let l = Layout::from_size_align(BUCKET, 8).unwrap();
    let ptr = core::ptr::NonNull::new(mem.as_mut_ptr() as *mut u8).unwrap();
    let alloc = Box::new(FixedSizePoolAllocator::<N>::new(l, ptr, cap * BUCKET));
    assert_eq!(alloc.number_of_buckets() as usize, cap, "pool capacity mismatch");
    Arc::new(Pool::<N> { alloc, base: ptr.as_ptr() as usize, bucket: BUCKET })
}

fn make(kind: &str, cap: usize) -> Arc<dyn IndexSet> {
    macro_rules! fixed {
        ($t:ident) => {
            match cap {
                1 => Arc::new($t::<1>::new()) as Arc<dyn IndexSet>,
                2 => Arc::new($t::<2>::new()),
                3 => Arc::new($t::<3>::new()),
                4 => Arc::new($t::<4>::new()),
                _ => panic!("unsupported capacity"),
            }
        };
    }
    match kind {
        "plain" => fixed!(FixedSizeUniqueIndexSet),
        "robust" => fixed!(StaticRobustUniqueIndexSet),
        "pool" => match cap {
            // MAX_NUMBER_OF_BUCKETS = cap + 1: with MAX == number of buckets the constructor of
            // FixedSizePoolAllocator panics (its bump allocator omits the `plus_one` cell) - outside C09
            1 => make_pool::<2>(1),
            2 => make_pool::<3>(2),
            3 => make_pool::<4>(3),
            4 => make_pool::<5>(4),
            _ => panic!("unsupported capacity"),
        },
        _ => panic!("unknown kind {kind}"),
    }
}

fn body(s: Arc<dyn IndexSet>, tid: usize, ops: Vec<String>, done: Arc<Vec<std::sync::atomic::AtomicBool>>) -> sched::Body {
    Box::new(move || {
        let done2 = done.clone();
        let _guard = DoneGuard(done2, tid);
        let owner = tid as u64 + 1;
        let mut held: Vec<u64> = vec![];
        for op in ops {
            if op == "acq" {
                sched::yield_api("acq");
                sched::log_api(json!({"k":"call","t":tid,"a":"acq","i":0,"m":0}));
                let r = s.acquire(owner);
                let (r, v) = match r {
                    AcqRes::Ok(i) => {
                        held.push(i);
                        ("ok", i)
                    }
                    AcqRes::Full => ("full", 0),
                    AcqRes::Locked => ("locked", 0),
                };
                sched::log_api(json!({"k":"ret","t":tid,"a":"acq","r":r,"v":v,"idx":[]}));
            } else if op == "obs" {
                sched::yield_api("obs");
                sched::log_api(json!({"k":"call","t":tid,"a":"obs","i":0,"m":0}));
                let b = s.borrowed();
                assert!(b != u64::MAX, "this kind has no observer");
                sched::log_api(json!({"k":"ret","t":tid,"a":"obs","r":"ok","v":b,"idx":[]}));
            } else if op == "il" {
                sched::yield_api("il");
                sched::log_api(json!({"k":"call","t":tid,"a":"il","i":0,"m":0}));
                let r = if s.locked() { "true" } else { "false" };
                sched::log_api(json!({"k":"ret","t":tid,"a":"il","r":r,"v":0,"idx":[]}));
            } else if let Some(rest) = op.strip_prefix("rell").or_else(|| op.strip_prefix("rel")) {
                let lock = op.starts_with("rell");
                let k: usize = rest.parse().unwrap_or(0);
                if k >= held.len() {
                    continue;
                }
                let idx = held.remove(k);
                sched::yield_api("rel");
                sched::log_api(json!({"k":"call","t":tid,"a":"rel","i":idx,"m": lock as u64}));
                let r = s.release(idx, owner, lock);
                sched::log_api(json!({"k":"ret","t":tid,"a":"rel","r":r,"v":0,"idx":[]}));
            } else if let Some(rest) = op.strip_prefix("recl").or_else(|| op.strip_prefix("rec")) {
                let lock = op.starts_with("recl");
                let target: u64 = rest.parse().unwrap();
                // the owner whose indices are recovered must be "dead": its thread has finished
                let d = done.clone();
                if !sched::block_until("owner-dead", move || d[target as usize].load(std::sync::atomic::Ordering::SeqCst)) {
                    return;
                }
                sched::yield_api("rec");
                sched::log_api(json!({"k":"call","t":tid,"a":"rec","i":target + 1,"m": lock as u64}));
                let (r, idx) = s.recover(target + 1, lock);
                sched::log_api(json!({"k":"ret","t":tid,"a":"rec","r":r,"v":0,"idx":idx}));
            } else {
                panic!("unknown op {op}");
            }
        }
    })
}

struct DoneGuard(Arc<Vec<std::sync::atomic::AtomicBool>>, usize);
impl Drop for DoneGuard {
    fn drop(&mut self) {
        self.0[self.1].store(true, std::sync::atomic::Ordering::SeqCst);
    }
}

pub fn main(args: &Args) {
    let kind = args.get_or("kind", "plain");
    let cap = args.num("cap", 2) as usize;
    let prog: Vec<Vec<String>> = serde_json::from_str(&args.get_or("prog", r#"[["acq","rel0"],["acq","rel0"]]"#))
        .expect("bad --prog");
    let cfg = ExecCfg::from_args(args);
    let mut out = TraceWriter::create(&args.get_or("out", "/dev/stdout"));
    let reset = json!({"k":"reset","kind":kind,"cap":cap,"n":prog.len()});
    let s = explore(&cfg, &mut out, reset, || {
        let set = make(&kind, cap);
        let done = Arc::new((0..prog.len()).map(|_| std::sync::atomic::AtomicBool::new(false)).collect::<Vec<_>>());
        let bodies = prog
            .iter()
            .enumerate()
            .map(|(t, ops)| body(set.clone(), t, ops.clone(), done.clone()))
            .collect();
        let set2 = set.clone();
        Case {
            ranges: vec![set.range()],
            bodies,
            finish: Box::new(move || -> Value {
                let b = set2.borrowed();
                json!({"borrowed": if b == u64::MAX { -1i64 } else { b as i64 }, "locked": set2.locked()})
            }),
        }
    });
    println!(
        "{}",
        json!({"executions": s.executions, "anomalies": s.anomalies, "exhausted": s.exhausted, "lines": out.lines,
               "kind": kind, "cap": cap, "mode": cfg.mode, "seed": cfg.seed, "prog": prog})
    );
}
