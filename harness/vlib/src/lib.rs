//! Shared helpers of the /verif conformance harness: ndjson trace I/O, a small seeded PRNG and
//! the deterministic scheduler that serialises real threads at the yield points provided by the
//! instrumented atomics (DESIGN.md 3.1 / 3.2).

pub mod rng;
pub mod sched;
pub mod trace;

pub use serde_json::{Value, json};

/// Reads VERIF_SEED (default 1).
pub fn seed_from_env() -> u64 {
    std::env::var("VERIF_SEED")
        .ok()
        .and_then(|s| s.parse::<i64>().ok())
        .map(|v| v as u64)
        .unwrap_or(1)
}

/// Simple `--key value` / `--flag` command line access.
pub struct Args(Vec<String>);

impl Args {
    pub fn from_env() -> Self {
        Args(std::env::args().skip(1).collect())
    }
    pub fn get(&self, key: &str) -> Option<String> {
        let k = format!("--{key}");
        self.0
            .iter()
            .position(|a| *a == k)
            .and_then(|i| self.0.get(i + 1).cloned())
    }
    pub fn get_or(&self, key: &str, default: &str) -> String {
        self.get(key).unwrap_or_else(|| default.to_string())
    }
    pub fn num(&self, key: &str, default: u64) -> u64 {
        self.get(key)
            .and_then(|v| v.parse().ok())
            .unwrap_or(default)
    }
    pub fn flag(&self, key: &str) -> bool {
        let k = format!("--{key}");
        self.0.iter().any(|a| *a == k)
    }
    pub fn positional(&self, idx: usize) -> Option<String> {
        self.0.iter().filter(|a| !a.starts_with("--")).nth(idx).cloned()
    }
}
