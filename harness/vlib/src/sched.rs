//! Deterministic scheduler (DESIGN.md 3.2).
//!
//! Real code runs on real OS threads, but exactly one worker runs at a time. A worker stops at
//! every *yield point* (before each instrumented atomic access inside a registered address
//! range, at explicit `yield_api` calls and at `block_until`) and continues only when the
//! controller grants it the next block. An execution is therefore fully described by the
//! sequence of thread ids chosen, and can be replayed, enumerated (DFS with a preemption bound)
//! or randomised (seeded).

pub use iceoryx2_pal_concurrency_sync::verif_hook::{Kind, Site};
use iceoryx2_pal_concurrency_sync::verif_hook::{self, ord_name};
use serde_json::{Value, json};
use std::cell::RefCell;
use std::panic::{AssertUnwindSafe, catch_unwind};
use std::sync::{Arc, Condvar, Mutex};

#[derive(Clone, Debug)]
pub struct SiteInfo {
    pub addr: usize,
    /// index of the registered range the address lies in and offset inside of it
    pub range: usize,
    pub off: usize,
    pub width: u8,
    pub kind: &'static str,
    pub ord: &'static str,
    pub ordf: &'static str,
    pub operand: u64,
    pub expected: u64,
    pub file: &'static str,
    pub line: u32,
}

impl SiteInfo {
    pub fn to_json(&self) -> Value {
        json!({"range": if self.range == usize::MAX { -1i64 } else { self.range as i64 }, "off": self.off, "w": self.width, "op": self.kind,
               "ord": self.ord, "ordf": self.ordf, "operand": self.operand,
               "expected": self.expected, "site": format!("{}:{}", short(self.file), self.line)})
    }
}

fn short(f: &str) -> &str {
    f.strip_prefix("/repo/").unwrap_or(f)
}

type Cond = Arc<dyn Fn() -> bool + Send + Sync>;

#[derive(Clone)]
pub enum Pending {
    Start,
    /// after a write access (only with RunConfig::yield_after): the plain accesses that follow a
    /// publishing store are separated from it by a scheduling point
    After,
    Atomic(SiteInfo),
    Api(String),
    Blocked(String, Cond),
}

impl Pending {
    pub fn describe(&self) -> String {
        match self {
            Pending::Start => "start".into(),
            Pending::After => "after".into(),
            Pending::Atomic(s) => format!("{}@{}+{} {}:{}", s.kind, s.range, s.off, short(s.file), s.line),
            Pending::Api(a) => format!("api:{a}"),
            Pending::Blocked(a, _) => format!("blocked:{a}"),
        }
    }
}

#[derive(Clone, Debug)]
pub enum LogEntry {
    /// a completed atomic access
    Atom {
        tid: usize,
        site: SiteInfo,
        rd: u64,
        wr: u64,
        ok: bool,
    },
    /// an API-level event emitted by the thread body
    Api { tid: usize, ev: Value },
}

enum Status {
    AtYield(Pending),
    Running,
    Finished,
}

struct St {
    status: Vec<Status>,
    granted: Option<usize>,
    log: Vec<LogEntry>,
    abort: bool,
    panics: Vec<(usize, String)>,
}

struct Inner {
    m: Mutex<St>,
    cv: Condvar,
    ranges: Vec<(usize, usize)>,
    record_atoms: bool,
    yield_after: bool,
    yield_after_loads: bool,
    site_filter: Option<SiteFilter>,
}

/// Process-wide switch read by `run`: additionally yield after every LOAD of a registered location, so that the
/// plain accesses that follow a load (e.g. the payload copy of a sequence lock after its counter load) are
/// separated from it by a scheduling point.  (A switch instead of a `RunConfig` field: the struct is built with
/// all fields listed by several drivers.)
static YIELD_AFTER_LOADS: std::sync::atomic::AtomicBool = std::sync::atomic::AtomicBool::new(false);
pub fn set_yield_after_loads(on: bool) {
    YIELD_AFTER_LOADS.store(on, std::sync::atomic::Ordering::SeqCst);
}

/// decides for an atomic access whether it is a yield point (instead of the address ranges)
pub type SiteFilter = Arc<dyn Fn(&Site) -> bool + Send + Sync>;

thread_local! {
    static CTX: RefCell<Option<(usize, Arc<Inner>)>> = const { RefCell::new(None) };
}

fn ctx() -> Option<(usize, Arc<Inner>)> {
    CTX.try_with(|c| c.try_borrow().ok().and_then(|b| b.clone()))
        .ok()
        .flatten()
}

impl Inner {
    fn locate(&self, addr: usize) -> Option<(usize, usize)> {
        if self.ranges.is_empty() {
            return Some((0, addr));
        }
        for (i, (start, len)) in self.ranges.iter().enumerate() {
            if addr >= *start && addr < *start + *len {
                return Some((i, addr - *start));
            }
        }
        None
    }

    fn site_info(&self, s: &Site) -> Option<SiteInfo> {
        if let Some(f) = &self.site_filter {
            if !f(s) {
                return None;
            }
            return Some(SiteInfo {
                addr: s.addr,
                range: 0,
                off: s.addr,
                width: s.width,
                kind: s.kind.name(),
                ord: ord_name(s.ord),
                ordf: ord_name(s.ordf),
                operand: s.operand,
                expected: s.expected,
                file: s.file,
                line: s.line,
            });
        }
        let (range, off) = if s.kind == verif_hook::Kind::Fence {
            (usize::MAX, 0)
        } else {
            self.locate(s.addr)?
        };
        Some(SiteInfo {
            addr: s.addr,
            range,
            off,
            width: s.width,
            kind: s.kind.name(),
            ord: ord_name(s.ord),
            ordf: ord_name(s.ordf),
            operand: s.operand,
            expected: s.expected,
            file: s.file,
            line: s.line,
        })
    }

    fn do_yield(&self, tid: usize, p: Pending) -> bool {
        let mut st = self.m.lock().unwrap();
        if st.abort {
            return false;
        }
        st.status[tid] = Status::AtYield(p);
        self.cv.notify_all();
        loop {
            if st.abort {
                st.status[tid] = Status::Running;
                return false;
            }
            if st.granted == Some(tid) {
                st.granted = None;
                st.status[tid] = Status::Running;
                return true;
            }
            st = self.cv.wait(st).unwrap();
        }
    }
}

fn pre_hook(s: &Site) {
    if let Some((tid, inner)) = ctx() {
        if let Some(info) = inner.site_info(s) {
            inner.do_yield(tid, Pending::Atomic(info));
        }
    }
}

fn post_hook(s: &Site, rd: u64, wr: u64, ok: bool) {
    if let Some((tid, inner)) = ctx() {
        if !inner.record_atoms {
            if ((inner.yield_after && s.kind.is_write() && ok) || (inner.yield_after_loads && s.kind == verif_hook::Kind::Load))
                && inner.site_info(s).is_some()
            {
                inner.do_yield(tid, Pending::After);
            }
            return;
        }
        if let Some(info) = inner.site_info(s) {
            {
                let mut st = inner.m.lock().unwrap();
                st.log.push(LogEntry::Atom {
                    tid,
                    site: info,
                    rd,
                    wr,
                    ok,
                });
            }
            if (inner.yield_after && s.kind.is_write() && ok) || (inner.yield_after_loads && s.kind == verif_hook::Kind::Load) {
                inner.do_yield(tid, Pending::After);
            }
        }
    }
}

/// Emits an API-level event into the totally ordered log of the running execution
/// (no-op outside of a scheduled worker).
pub fn log_api(ev: Value) {
    if let Some((tid, inner)) = ctx() {
        let mut st = inner.m.lock().unwrap();
        st.log.push(LogEntry::Api { tid, ev });
    }
}

/// An explicit yield point (e.g. API call boundaries).
pub fn yield_api(name: &str) {
    if let Some((tid, inner)) = ctx() {
        inner.do_yield(tid, Pending::Api(name.to_string()));
    }
}

/// Blocks the worker until `cond` holds. Returns false if the execution was aborted
/// (deadlock / step limit) – the caller must then bail out.
pub fn block_until(name: &str, cond: impl Fn() -> bool + Send + Sync + 'static) -> bool {
    if let Some((tid, inner)) = ctx() {
        inner.do_yield(tid, Pending::Blocked(name.to_string(), Arc::new(cond)))
    } else {
        while !cond() {
            std::thread::yield_now();
        }
        true
    }
}

pub fn in_worker() -> bool {
    ctx().is_some()
}

#[derive(Debug, Clone, PartialEq, Eq)]
pub enum Outcome {
    Completed,
    /// threads that were blocked for ever
    Deadlock(Vec<usize>),
    StepLimit,
}

pub struct RunResult {
    pub log: Vec<LogEntry>,
    /// thread id granted at every step
    pub schedule: Vec<usize>,
    pub outcome: Outcome,
    pub panics: Vec<(usize, String)>,
}

pub struct Choice<'a> {
    pub step: usize,
    pub current: Option<usize>,
    /// enabled thread ids, ascending
    pub enabled: &'a [usize],
    /// what every thread is waiting to do (None = finished)
    pub pending: &'a [Option<Pending>],
}

pub trait Strategy {
    fn choose(&mut self, c: &Choice) -> usize;
}

pub struct RunConfig {
    pub ranges: Vec<(usize, usize)>,
    pub max_steps: usize,
    pub record_atoms: bool,
    /// additionally yield after every successful write access
    pub yield_after: bool,
    /// if set, replaces the address ranges
    pub site_filter: Option<SiteFilter>,
}

impl Default for RunConfig {
    fn default() -> Self {
        RunConfig {
            ranges: vec![],
            max_steps: 10_000,
            record_atoms: true,
            yield_after: false,
            site_filter: None,
        }
    }
}

pub type Body = Box<dyn FnOnce() + Send + 'static>;

/// Runs the thread bodies under the scheduler with the given strategy.
pub fn run(cfg: RunConfig, bodies: Vec<Body>, strat: &mut dyn Strategy) -> RunResult {
    verif_hook::install(Some(pre_hook), Some(post_hook));
    let n = bodies.len();
    let inner = Arc::new(Inner {
        m: Mutex::new(St {
            status: (0..n).map(|_| Status::Running).collect(),
            granted: None,
            log: vec![],
            abort: false,
            panics: vec![],
        }),
        cv: Condvar::new(),
        ranges: cfg.ranges.clone(),
        record_atoms: cfg.record_atoms,
        yield_after: cfg.yield_after,
        yield_after_loads: YIELD_AFTER_LOADS.load(std::sync::atomic::Ordering::SeqCst),
        site_filter: cfg.site_filter.clone(),
    });

    let mut handles = vec![];
    for (tid, body) in bodies.into_iter().enumerate() {
        let inner2 = inner.clone();
        handles.push(
            std::thread::Builder::new()
                .name(format!("worker-{tid}"))
                .spawn(move || {
                    CTX.with(|c| *c.borrow_mut() = Some((tid, inner2.clone())));
                    inner2.do_yield(tid, Pending::Start);
                    let r = catch_unwind(AssertUnwindSafe(body));
                    CTX.with(|c| *c.borrow_mut() = None);
                    let mut st = inner2.m.lock().unwrap();
                    if let Err(e) = r {
                        let msg = if let Some(s) = e.downcast_ref::<String>() {
                            s.clone()
                        } else if let Some(s) = e.downcast_ref::<&str>() {
                            s.to_string()
                        } else {
                            "panic".to_string()
                        };
                        st.panics.push((tid, msg));
                    }
                    st.status[tid] = Status::Finished;
                    inner2.cv.notify_all();
                })
                .expect("spawn"),
        );
    }

    let mut schedule = vec![];
    let mut current: Option<usize> = None;
    let outcome;
    loop {
        let mut st = inner.m.lock().unwrap();
        // wait until nobody runs
        loop {
            let busy = st.granted.is_some() || st.status.iter().any(|s| matches!(s, Status::Running));
            if !busy {
                break;
            }
            st = inner.cv.wait(st).unwrap();
        }
        let pending: Vec<Option<Pending>> = st
            .status
            .iter()
            .map(|s| match s {
                Status::AtYield(p) => Some(p.clone()),
                _ => None,
            })
            .collect();
        drop(st);
        // evaluate blocking conditions without holding the lock
        let mut enabled = vec![];
        let mut blocked = vec![];
        for (tid, p) in pending.iter().enumerate() {
            match p {
                None => {}
                Some(Pending::Blocked(_, cond)) => {
                    if cond() {
                        enabled.push(tid)
                    } else {
                        blocked.push(tid)
                    }
                }
                Some(_) => enabled.push(tid),
            }
        }
        if enabled.is_empty() {
            outcome = if blocked.is_empty() {
                Outcome::Completed
            } else {
                Outcome::Deadlock(blocked)
            };
            break;
        }
        if schedule.len() >= cfg.max_steps {
            outcome = Outcome::StepLimit;
            break;
        }
        let tid = strat.choose(&Choice {
            step: schedule.len(),
            current,
            enabled: &enabled,
            pending: &pending,
        });
        assert!(enabled.contains(&tid), "strategy chose a thread that is not enabled");
        schedule.push(tid);
        current = Some(tid);
        let mut st = inner.m.lock().unwrap();
        st.granted = Some(tid);
        inner.cv.notify_all();
    }
    if outcome != Outcome::Completed {
        let mut st = inner.m.lock().unwrap();
        st.abort = true;
        inner.cv.notify_all();
    }
    for h in handles {
        let _ = h.join();
    }
    let mut st = inner.m.lock().unwrap();
    RunResult {
        log: std::mem::take(&mut st.log),
        schedule,
        outcome,
        panics: std::mem::take(&mut st.panics),
    }
}

// ------------------------------------------------------------------------------------------
// strategies

/// Follows a given list of thread ids; afterwards (or when the wanted thread is not enabled)
/// continues the current thread, else the lowest enabled one.
pub struct Replay {
    pub tids: Vec<usize>,
    pub deviations: usize,
}

impl Replay {
    pub fn new(tids: Vec<usize>) -> Self {
        Replay { tids, deviations: 0 }
    }
}

impl Strategy for Replay {
    fn choose(&mut self, c: &Choice) -> usize {
        if let Some(t) = self.tids.get(c.step) {
            if c.enabled.contains(t) {
                return *t;
            }
            self.deviations += 1;
        }
        match c.current {
            Some(t) if c.enabled.contains(&t) => t,
            _ => c.enabled[0],
        }
    }
}

pub struct RandomWalk {
    pub rng: crate::rng::Rng,
    /// probability (percent) of switching away from the current thread at a yield point
    pub switch_percent: u64,
}

impl Strategy for RandomWalk {
    fn choose(&mut self, c: &Choice) -> usize {
        if let Some(t) = c.current {
            if c.enabled.contains(&t) && !self.rng.chance(self.switch_percent, 100) {
                return t;
            }
        }
        *self.rng.pick(c.enabled)
    }
}

/// Stateless depth-first enumeration of all schedules with at most `bound` preemptions.
pub struct Dfs {
    /// (chosen option index, number of options) per step of the previous run
    stack: Vec<(usize, usize)>,
    pos: usize,
    preemptions: usize,
    pub bound: usize,
    first: bool,
    pub runs: u64,
}

impl Dfs {
    pub fn new(bound: usize) -> Self {
        Dfs {
            stack: vec![],
            pos: 0,
            preemptions: 0,
            bound,
            first: true,
            runs: 0,
        }
    }

    /// Prepares the next run; returns false when the space is exhausted.
    pub fn next_run(&mut self) -> bool {
        self.pos = 0;
        self.preemptions = 0;
        if self.first {
            self.first = false;
            self.runs += 1;
            return true;
        }
        while let Some((i, n)) = self.stack.last().copied() {
            if i + 1 < n {
                let l = self.stack.len();
                self.stack[l - 1].0 = i + 1;
                self.runs += 1;
                return true;
            }
            self.stack.pop();
        }
        false
    }
}

impl Strategy for Dfs {
    fn choose(&mut self, c: &Choice) -> usize {
        // options: current first (continuing is never a preemption), then the others ascending
        let mut options: Vec<usize> = vec![];
        let cur_enabled = c.current.map(|t| c.enabled.contains(&t)).unwrap_or(false);
        if cur_enabled {
            options.push(c.current.unwrap());
        }
        if !(cur_enabled && self.preemptions >= self.bound) {
            for t in c.enabled {
                if Some(*t) != c.current || !cur_enabled {
                    if !options.contains(t) {
                        options.push(*t);
                    }
                }
            }
        }
        let idx = if self.pos < self.stack.len() {
            let (i, n) = self.stack[self.pos];
            debug_assert_eq!(n, options.len(), "nondeterministic execution under replay");
            i.min(options.len() - 1)
        } else {
            self.stack.push((0, options.len()));
            0
        };
        self.pos += 1;
        if cur_enabled && idx > 0 {
            self.preemptions += 1;
        }
        options[idx]
    }
}
