//! ndjson trace writer (one JSON object per line; see DESIGN.md 3.10).

use serde_json::Value;
use std::fs::File;
use std::io::{BufRead, BufReader, BufWriter, Write};

pub struct TraceWriter {
    out: BufWriter<File>,
    pub lines: u64,
}

impl TraceWriter {
    pub fn create(path: &str) -> Self {
        if let Some(parent) = std::path::Path::new(path).parent() {
            let _ = std::fs::create_dir_all(parent);
        }
        let f = File::create(path).unwrap_or_else(|e| panic!("cannot create {path}: {e}"));
        TraceWriter {
            out: BufWriter::new(f),
            lines: 0,
        }
    }
    pub fn emit(&mut self, v: &Value) {
        serde_json::to_writer(&mut self.out, v).expect("trace write");
        self.out.write_all(b"\n").expect("trace write");
        self.lines += 1;
    }
    pub fn flush(&mut self) {
        self.out.flush().expect("trace flush");
    }
}

impl Drop for TraceWriter {
    fn drop(&mut self) {
        let _ = self.out.flush();
    }
}

pub fn read_ndjson(path: &str) -> Vec<Value> {
    let f = File::open(path).unwrap_or_else(|e| panic!("cannot open {path}: {e}"));
    BufReader::new(f)
        .lines()
        .map(|l| l.expect("read"))
        .filter(|l| !l.trim().is_empty())
        .map(|l| serde_json::from_str(&l).unwrap_or_else(|e| panic!("bad json line {l}: {e}")))
        .collect()
}
