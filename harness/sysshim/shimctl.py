"""Controller side of harness/sysshim (DESIGN.md 3.6): starts real processes under the LD_PRELOAD shim,
talks to their command loops (one word per line on stdin, one JSON line per answer on stdout) and
steps / kills them at system-call granularity.

Determinism: a stepped process is only ever in one of two places - blocked inside the shim before a
numbered call (announced on the .ack FIFO) or blocked reading its stdin after having printed an answer.
`Proc.wait()` returns the next event in program order; timeouts are watchdogs only (generous) and turn
into `Hang`, never into a verdict by themselves.
"""
import json
import os
import select
import signal
import subprocess
import time

SHIM = os.path.join(os.path.dirname(os.path.abspath(__file__)), "sysshim.so")
WATCHDOG = float(os.environ.get("VERIF_SHIM_WATCHDOG", "60"))


class Hang(Exception):
    pass


def shim_env(roots, syslog=None, tag="", count="s", kill_at=None, step_fifo=None, step_from=1, extra=None):
    e = dict(os.environ)
    e["LD_PRELOAD"] = SHIM
    e["IOX2_VERIF_ROOT"] = ":".join(roots)
    e["IOX2_VERIF_TAG"] = tag
    e["IOX2_VERIF_COUNT"] = count
    e.setdefault("IOX2_LOG_LEVEL", "fatal")
    for k in ("IOX2_VERIF_SYSLOG", "IOX2_VERIF_KILL_AT", "IOX2_VERIF_STEP_FIFO", "IOX2_VERIF_STEP_FROM"):
        e.pop(k, None)
    if syslog:
        e["IOX2_VERIF_SYSLOG"] = syslog
    if kill_at:
        e["IOX2_VERIF_KILL_AT"] = str(kill_at)
    if step_fifo:
        e["IOX2_VERIF_STEP_FIFO"] = step_fifo
        e["IOX2_VERIF_STEP_FROM"] = str(step_from)
    if extra:
        e.update({k: str(v) for k, v in extra.items()})
    return e


class Proc:
    """One child process under the shim, optionally stepped."""

    def __init__(self, argv, roots, tag, syslog=None, count="s", kill_at=None, step_dir=None, step_from=1,
                 extra_env=None, stderr_path=None):
        self.tag = tag
        self.ctl = self.ack = None
        self.fifo = None
        if step_dir:
            os.makedirs(step_dir, exist_ok=True)
            self.fifo = os.path.join(step_dir, f"step-{tag}-{os.getpid()}-{id(self) & 0xffffff}")
            for p in (self.fifo, self.fifo + ".ack"):
                if os.path.exists(p):
                    os.unlink(p)
                os.mkfifo(p)
            self.ack = os.open(self.fifo + ".ack", os.O_RDONLY | os.O_NONBLOCK)
            self.ctl = os.open(self.fifo, os.O_RDWR)
        env = shim_env(roots, syslog, tag, count, kill_at, self.fifo, step_from, extra_env)
        self.errf = open(stderr_path, "ab") if stderr_path else subprocess.DEVNULL
        self.p = subprocess.Popen(argv, stdin=subprocess.PIPE, stdout=subprocess.PIPE, stderr=self.errf, env=env,
                                  close_fds=True)
        self.pid = self.p.pid
        os.set_blocking(self.p.stdout.fileno(), False)
        self.obuf = b""
        self.abuf = b""
        self.events = []
        self.exited = None
        self.pending_step = None     # the announced, not yet released step
        self.steps_done = 0
        self.outs = []               # all answers seen

    # ---- low level
    def _drain(self):
        try:
            while True:
                d = os.read(self.p.stdout.fileno(), 65536)
                if not d:
                    break
                self.obuf += d
        except BlockingIOError:
            pass
        while b"\n" in self.obuf:
            line, self.obuf = self.obuf.split(b"\n", 1)
            line = line.strip()
            if line.startswith(b"{"):
                o = json.loads(line)
                self.outs.append(o)
                self.events.append(("out", o))
        if self.ack is not None:
            try:
                while True:
                    d = os.read(self.ack, 65536)
                    if not d:
                        break
                    self.abuf += d
            except BlockingIOError:
                pass
            while b"\n" in self.abuf:
                line, self.abuf = self.abuf.split(b"\n", 1)
                self.events.append(("step", json.loads(line)))

    def wait(self, timeout=None):
        """Next event: ("out", obj) | ("step", rec) | ("exit", returncode)."""
        deadline = time.time() + (timeout or WATCHDOG)
        while True:
            if self.events:
                ev = self.events.pop(0)
                if ev[0] == "step":
                    self.pending_step = ev[1]
                return ev
            if self.exited is not None:
                return ("exit", self.exited)
            fds = [self.p.stdout.fileno()] + ([self.ack] if self.ack is not None else [])
            r, _, _ = select.select(fds, [], [], 0.02)
            # program order: whatever was printed before an announce is already in the stdout pipe
            self._drain()
            if self.events:
                continue
            rc = self.p.poll()
            if rc is not None:
                self._drain()
                if self.events:
                    continue
                self.exited = rc
                return ("exit", rc)
            if time.time() > deadline:
                raise Hang(f"process {self.tag} (pid {self.pid}) made no progress for {timeout or WATCHDOG}s")

    def send(self, cmd):
        self.p.stdin.write((cmd + "\n").encode())
        self.p.stdin.flush()

    def token(self, t="g"):
        assert self.pending_step is not None, "no announced step to release"
        self.pending_step = None
        self.steps_done += 1
        os.write(self.ctl, t.encode())

    # ---- composite helpers
    def step(self):
        """Releases the announced call and returns the next event (the call has completed when it arrives)."""
        self.token("g")
        return self.wait()

    def run_free(self):
        if self.pending_step is not None:
            self.token("r")

    def wait_out(self, timeout=None):
        """Runs (free of stepping) until the next answer; returns it, or None if the process exited."""
        while True:
            ev = self.wait(timeout)
            if ev[0] == "out":
                return ev[1]
            if ev[0] == "exit":
                return None
            if ev[0] == "step":
                self.token("g")

    def kill(self):
        """SIGKILL (the process is blocked, so this is a crash exactly at its current position)."""
        if self.p.poll() is None:
            try:
                os.kill(self.pid, signal.SIGKILL)
            except ProcessLookupError:
                pass
        self.p.wait()
        self.exited = self.p.returncode
        self.pending_step = None
        return self.exited

    def close(self):
        try:
            if self.p.poll() is None:
                self.kill()
        finally:
            for fd in (self.ctl, self.ack):
                if fd is not None:
                    try:
                        os.close(fd)
                    except OSError:
                        pass
            self.ctl = self.ack = None
            if self.fifo:
                for p in (self.fifo, self.fifo + ".ack"):
                    try:
                        os.unlink(p)
                    except OSError:
                        pass
            for f in (self.p.stdin, self.p.stdout):
                try:
                    f.close()
                except Exception:
                    pass
            if self.errf not in (None, subprocess.DEVNULL):
                self.errf.close()


def read_syslog(path):
    out = []
    if not os.path.exists(path):
        return out
    with open(path) as f:
        for line in f:
            line = line.strip()
            if line:
                out.append(json.loads(line))
    return out


def run_to_end(argv, roots, tag, syslog=None, count="s", kill_at=None, stdin_text="", timeout=None, extra_env=None,
               stderr_path=None):
    """Free run of one process (no stepping); returns (returncode, [answers], hang:bool)."""
    env = shim_env(roots, syslog, tag, count, kill_at, None, 1, extra_env)
    errf = open(stderr_path, "ab") if stderr_path else subprocess.DEVNULL
    try:
        p = subprocess.Popen(argv, stdin=subprocess.PIPE, stdout=subprocess.PIPE, stderr=errf, env=env)
        try:
            so, _ = p.communicate(stdin_text.encode(), timeout=timeout or WATCHDOG)
            hang = False
        except subprocess.TimeoutExpired:
            p.kill()
            so, _ = p.communicate()
            hang = True
    finally:
        if errf is not subprocess.DEVNULL:
            errf.close()
    outs = []
    for line in so.decode(errors="replace").splitlines():
        line = line.strip()
        if line.startswith("{"):
            try:
                outs.append(json.loads(line))
            except ValueError:
                pass
    return p.returncode, outs, hang


def strace_state_calls(argv, roots, stdin_text="", extra_env=None, timeout=120):
    """Cross-check: runs argv under `strace -f` WITH the shim loaded and returns (strace_calls, shim_calls):
    the state-changing system calls on tracked paths as seen by the kernel and as logged by the shim."""
    import re
    import tempfile
    d = tempfile.mkdtemp(prefix="shimstrace-", dir=os.path.dirname(roots[0].rstrip("/")) or "/tmp")
    st = os.path.join(d, "strace.txt")
    lg = os.path.join(d, "shim.ndjson")
    env = shim_env(roots, lg, "X", "s", None, None, 1, extra_env)
    cmd = ["strace", "-f", "-y", "-o", st, "-e",
           "trace=openat,open,creat,unlink,unlinkat,rmdir,mkdir,mkdirat,rename,renameat,renameat2,ftruncate,"
           "truncate,fchmod,chmod,fchmodat,fchown,flock,fcntl,bind,link,linkat,symlink,symlinkat,mknod,mknodat"] + argv
    p = subprocess.run(cmd, input=stdin_text.encode(), stdout=subprocess.PIPE, stderr=subprocess.PIPE, env=env,
                       timeout=timeout)
    kern = []
    rx = re.compile(r"^\d+\s+(\w+)\((.*)\)\s+=\s+(-?\d+)")
    for line in open(st, errors="replace"):
        m = rx.match(line)
        if not m:
            continue
        call, argstr, ret = m.group(1), m.group(2), int(m.group(3))
        if not any(r.rstrip("/") in argstr for r in roots):
            continue
        if call in ("openat", "open"):
            if not re.search(r"O_CREAT|O_TRUNC", argstr):
                continue            # opening an existing object changes nothing outside the process
            call = "open"
        if call == "fcntl":
            if not re.search(r"F_SETLK|F_SETLKW|F_OFD_SETLK", argstr):
                continue
        call = {"unlinkat": "unlink", "mkdirat": "mkdir", "creat": "open", "fchmodat": "chmod"}.get(call, call)
        kern.append((call, ret >= 0))
    shim = []
    for r in read_syslog(lg):
        if r["k"] != "sys" or r["c"] != "s":
            continue
        call = r["call"]
        if call in ("close", "mmap", "write"):
            continue
        if call in ("open", "shm_open") and not (r["flags"] & (os.O_CREAT | os.O_TRUNC)):
            continue
        call = {"shm_open": "open", "shm_unlink": "unlink", "remove": "unlink"}.get(call, call)
        shim.append((call, r["ret"] >= 0))
    import shutil
    shutil.rmtree(d, ignore_errors=True)
    return kern, shim, p.returncode
