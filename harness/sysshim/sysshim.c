/*
 * sysshim.so - LD_PRELOAD shim for the process-level checks (DESIGN.md 3.6; used by C07, C04, C06).
 *
 * Interposes the libc entry points through which the repo's binaries change (class "s") or
 * observe (class "o") file-system / shared-memory / advisory-lock state.  Only calls whose path
 * (or whose descriptor's path) lies under one of the prefixes of IOX2_VERIF_ROOT are handled; all
 * other calls are passed through untouched and never counted.
 *
 *   IOX2_VERIF_ROOT      colon separated list of path prefixes (shm names are matched as
 *                        /dev/shm<name>), e.g. "/verif/work/C04-quick/r7/:/dev/shm/v7_"
 *   IOX2_VERIF_SYSLOG    ndjson log file (O_APPEND, one write() per record)
 *   IOX2_VERIF_TAG       label of this process in the log ("p")
 *   IOX2_VERIF_COUNT     "s" (default): only state-changing calls are numbered; "so": observing
 *                        calls (fstat/read/access/stat/F_GETLK/opendir) are numbered as well
 *   IOX2_VERIF_KILL_AT   N: the process kills itself (SIGKILL) immediately BEFORE its N-th numbered call
 *   IOX2_VERIF_FAIL_AT   N[:errno]: FAULT INJECTION - the N-th numbered call (same numbering as KILL_AT) is NOT
 *                        performed and returns -1 (MAP_FAILED) with errno (default per call: EACCES for
 *                        open/shm_open/mkdir/rename/bind, ENOSPC for write/ftruncate/truncate, EPERM for
 *                        chmod/fchmod/fchown, ENOMEM for mmap, ENOLCK for fcntl locks/flock).  Calls that RELEASE
 *                        something (close, unlink, remove, rmdir, shm_unlink) are never failed: if the N-th call is
 *                        one of them it is performed normally.  Logged as {"k":"fault",...} before the "sys" record.
 *                        The driver can (re-)arm the injection at run time through the exported function
 *                        iox2_verif_ctl(op, a, b) (found with dlsym(RTLD_DEFAULT, ...)), see below.
 *   IOX2_VERIF_SYSLOG_MAX bytes: the log is a ring - when it has grown beyond this size it is truncated to 0 and a
 *                        {"k":"wrap","i":..} record is written ("i" keeps counting), so that a process spinning in a
 *                        retry loop for ever cannot fill the disk (use with a PRIVATE log file only).
 *   IOX2_VERIF_STEP_FIFO path of a control FIFO; <path>.ack is the announce FIFO.  Before every numbered
 *                        call n >= IOX2_VERIF_STEP_FROM (default 1) the shim writes one JSON line to
 *                        the announce FIFO and blocks until it reads one byte from the control FIFO:
 *                        'g' perform this call and stop again before the next, 'r' run freely from now
 *                        on, 'k' SIGKILL now (before the call).
 *
 * Log record: {"k":"sys","p":tag,"pid":..,"n":numbered index or 0,"i":index of all logged calls,
 *              "c":"s"|"o","call":..,"path":..,"fd":..,"flags":..,"mode":..,"cmd":..,"lt":..,"rt":..,
 *              "rpid":..,"ret":..,"errno":..}
 * A kill writes {"k":"kill",...,"n":N,"call":<call that was about to happen>,"path":..}.
 */
#include <dirent.h>
#include <dlfcn.h>
#include <errno.h>
#include <fcntl.h>
#include <pthread.h>
#include <signal.h>
#include <stdarg.h>
#include <stddef.h>
#include <stdio.h>
#include <stdlib.h>
#include <string.h>
#include <sys/file.h>
#include <sys/mman.h>
#include <sys/socket.h>
#include <sys/stat.h>
#include <sys/syscall.h>
#include <sys/types.h>
#include <sys/un.h>
#include <unistd.h>

#define MAXFD 4096
#define MAXROOTS 8
#define HIGH_FD 900

static char *g_fdpath[MAXFD];
static char *g_roots[MAXROOTS];
static int g_nroots;
static int g_logfd = -1;
static int g_ctlfd = -1, g_ackfd = -1;
static long g_kill_at;
static long g_fail_at;       /* absolute numbered index of the call to fail, 0 = disarmed */
static int g_fail_errno;     /* 0 = the default of the call */
static long g_faults;        /* faults injected since the last arming */
static long g_fault_n;       /* numbered index of the last injected fault */
static char g_fault_info[400];
static long g_log_max, g_log_bytes;
static long g_step_from = 1;
static int g_stepping;
static int g_count_obs;
static long g_n, g_i;
static char g_tag[32] = "";
static int g_inited;
static pthread_mutex_t g_mtx = PTHREAD_MUTEX_INITIALIZER;
static __thread int g_inside;

/* ------------------------------------------------------------------------------------------ */
static int raw_open(const char *path, int flags, int mode) {
    return (int)syscall(SYS_openat, AT_FDCWD, path, flags, mode);
}

static int to_high(int fd) {
    if (fd < 0) return fd;
    int h = (int)syscall(SYS_fcntl, fd, F_DUPFD_CLOEXEC, HIGH_FD);
    if (h >= 0) {
        syscall(SYS_close, fd);
        return h;
    }
    return fd;
}

static void raw_write_all(int fd, const char *buf, size_t len) {
    while (len > 0) {
        long r = syscall(SYS_write, fd, buf, len);
        if (r < 0) {
            if (errno == EINTR) continue;
            return;
        }
        buf += r;
        len -= (size_t)r;
    }
}

static void die_now(void) {
    syscall(SYS_kill, syscall(SYS_getpid), SIGKILL);
    for (;;) syscall(SYS_pause);
}

static void init_once(void) {
    if (g_inited) return;
    g_inited = 1;
    int saved = errno;
    const char *r = getenv("IOX2_VERIF_ROOT");
    if (r && *r) {
        char *dup = strdup(r), *save = NULL;
        for (char *t = strtok_r(dup, ":", &save); t && g_nroots < MAXROOTS; t = strtok_r(NULL, ":", &save))
            if (*t) g_roots[g_nroots++] = strdup(t);
        free(dup);
    }
    const char *t = getenv("IOX2_VERIF_TAG");
    if (t) snprintf(g_tag, sizeof g_tag, "%s", t);
    const char *c = getenv("IOX2_VERIF_COUNT");
    g_count_obs = (c && strchr(c, 'o')) ? 1 : 0;
    const char *k = getenv("IOX2_VERIF_KILL_AT");
    g_kill_at = k ? atol(k) : 0;
    const char *fa = getenv("IOX2_VERIF_FAIL_AT");
    if (fa && *fa) {
        g_fail_at = atol(fa);
        const char *colon = strchr(fa, ':');
        g_fail_errno = colon ? atoi(colon + 1) : 0;
    }
    const char *lm = getenv("IOX2_VERIF_SYSLOG_MAX");
    g_log_max = lm ? atol(lm) : 0;
    const char *sf = getenv("IOX2_VERIF_STEP_FROM");
    if (sf) g_step_from = atol(sf);
    const char *l = getenv("IOX2_VERIF_SYSLOG");
    if (l && *l && g_nroots) g_logfd = to_high(raw_open(l, O_WRONLY | O_APPEND | O_CREAT | O_CLOEXEC, 0644));
    const char *f = getenv("IOX2_VERIF_STEP_FIFO");
    if (f && *f && g_nroots) {
        char ack[4096];
        snprintf(ack, sizeof ack, "%s.ack", f);
        /* the controller holds the announce FIFO open for reading and the control FIFO O_RDWR */
        g_ackfd = to_high(raw_open(ack, O_WRONLY | O_CLOEXEC, 0));
        g_ctlfd = to_high(raw_open(f, O_RDONLY | O_CLOEXEC, 0));
        if (g_ackfd < 0 || g_ctlfd < 0) {
            static const char m[] = "sysshim: cannot open step fifos\n";
            raw_write_all(2, m, sizeof m - 1);
            syscall(SYS_exit_group, 97);
        }
        g_stepping = 1;
    }
    errno = saved;
}

static int tracked_path(const char *p) {
    if (!p) return 0;
    for (int i = 0; i < g_nroots; i++) {
        size_t n = strlen(g_roots[i]);
        if (strncmp(p, g_roots[i], n) == 0) return 1;
        /* the root directory itself without trailing slash */
        if (n > 1 && g_roots[i][n - 1] == '/' && strlen(p) == n - 1 && strncmp(p, g_roots[i], n - 1) == 0) return 1;
    }
    return 0;
}

static const char *fd_path(int fd) { return (fd >= 0 && fd < MAXFD) ? g_fdpath[fd] : NULL; }

static void fd_set_path(int fd, const char *p) {
    if (fd < 0 || fd >= MAXFD) return;
    free(g_fdpath[fd]);
    g_fdpath[fd] = p ? strdup(p) : NULL;
}

static size_t json_str(char *out, size_t cap, const char *s) {
    size_t o = 0;
    if (cap < 3) return 0;
    out[o++] = '"';
    for (; s && *s && o + 8 < cap; s++) {
        unsigned char ch = (unsigned char)*s;
        if (ch == '"' || ch == '\\') {
            out[o++] = '\\';
            out[o++] = (char)ch;
        } else if (ch < 0x20 || ch >= 0x7f) {
            o += (size_t)snprintf(out + o, cap - o, "\\u%04x", ch);
        } else
            out[o++] = (char)ch;
    }
    out[o++] = '"';
    out[o] = 0;
    return o;
}

struct rec {
    const char *call;
    char cls;
    const char *path;
    int fd;
    long flags, mode;
    const char *cmd, *lt, *rt;
    long rpid;
    long n, i;
    int ferr; /* default errno of an injected failure; 0 = this call is never failed */
    int fail; /* set by pre(): do not perform the call, return -1 with this errno */
};

static const char *ltype_name(int t) {
    return t == F_RDLCK ? "F_RDLCK" : t == F_WRLCK ? "F_WRLCK" : t == F_UNLCK ? "F_UNLCK" : "?";
}

static size_t fmt_rec(char *buf, size_t cap, const char *kind, const struct rec *r, long ret, int err) {
    char p[2300], tg[80];
    json_str(p, sizeof p, r->path ? r->path : "");
    json_str(tg, sizeof tg, g_tag);
    int len = snprintf(buf, cap,
                       "{\"k\":\"%s\",\"p\":%s,\"pid\":%ld,\"n\":%ld,\"i\":%ld,\"c\":\"%c\",\"call\":\"%s\",\"path\":%s,"
                       "\"fd\":%d,\"flags\":%ld,\"mode\":%ld,\"cmd\":\"%s\",\"lt\":\"%s\",\"rt\":\"%s\",\"rpid\":%ld,"
                       "\"ret\":%ld,\"errno\":%d}\n",
                       kind, tg, (long)syscall(SYS_getpid), r->n, r->i, r->cls, r->call, p, r->fd, r->flags, r->mode,
                       r->cmd ? r->cmd : "", r->lt ? r->lt : "", r->rt ? r->rt : "", r->rpid, ret, err);
    if (len < 0) return 0;
    if ((size_t)len >= cap) len = (int)cap - 1;
    return (size_t)len;
}

static void log_write(const char *buf, size_t len) {
    if (g_logfd < 0) return;
    if (g_log_max > 0 && g_log_bytes + (long)len > g_log_max) {
        syscall(SYS_ftruncate, g_logfd, 0L);
        g_log_bytes = 0;
        char w[160];
        int k = snprintf(w, sizeof w, "{\"k\":\"wrap\",\"pid\":%ld,\"i\":%ld,\"n\":%ld}\n", (long)syscall(SYS_getpid), g_i, g_n);
        if (k > 0) {
            raw_write_all(g_logfd, w, (size_t)k);
            g_log_bytes += k;
        }
    }
    raw_write_all(g_logfd, buf, len);
    g_log_bytes += (long)len;
}

/* Called before a handled call: numbering, kill / fault injection, stepping.  Returns with g_mtx held. */
static void pre(struct rec *r) {
    pthread_mutex_lock(&g_mtx);
    r->i = ++g_i;
    int counted = (r->cls == 's') || g_count_obs;
    r->n = counted ? ++g_n : 0;
    if (!counted) return;
    char buf[3000];
    if (g_kill_at > 0 && r->n == g_kill_at) {
        if (g_logfd >= 0) raw_write_all(g_logfd, buf, fmt_rec(buf, sizeof buf, "kill", r, 0, 0));
        die_now();
    }
    if (g_fail_at > 0 && r->n == g_fail_at && r->ferr) {
        r->fail = g_fail_errno ? g_fail_errno : r->ferr;
        g_faults++;
        g_fault_n = r->n;
        snprintf(g_fault_info, sizeof g_fault_info, "%s %d %.300s", r->call, r->fail, r->path ? r->path : "");
        if (g_logfd >= 0) log_write(buf, fmt_rec(buf, sizeof buf, "fault", r, -1, r->fail));
    }
    if (g_stepping && r->n >= g_step_from) {
        raw_write_all(g_ackfd, buf, fmt_rec(buf, sizeof buf, "step", r, 0, 0));
        char tok = 0;
        for (;;) {
            long k = syscall(SYS_read, g_ctlfd, &tok, 1);
            if (k == 1) break;
            if (k < 0 && errno == EINTR) continue;
            die_now(); /* controller vanished */
        }
        if (tok == 'k') {
            if (g_logfd >= 0) raw_write_all(g_logfd, buf, fmt_rec(buf, sizeof buf, "kill", r, 0, 0));
            die_now();
        }
        if (tok == 'r') g_stepping = 0;
    }
}

static void post(struct rec *r, long ret, int err) {
    if (g_logfd >= 0) {
        char buf[3000];
        log_write(buf, fmt_rec(buf, sizeof buf, "sys", r, ret, ret < 0 ? err : 0));
    }
    pthread_mutex_unlock(&g_mtx);
    errno = err;
}

/*
 * Run-time control for a driver that enumerates fault positions in ONE process:
 *   op 0        -> current numbered count
 *   op 1 (a, b) -> arm: fail the a-th numbered call FROM NOW (a >= 1) with errno b (0 = default); resets the
 *                  fault counter; returns the current numbered count
 *   op 2        -> number of faults injected since the last arming
 *   op 3        -> disarm; returns the number of faults injected since the last arming
 *   op 4 (a, b) -> copies "call errno path" of the last injected fault into the buffer a of size b; returns its
 *                  numbered index
 */
long iox2_verif_ctl(int op, long a, long b) {
    int nested = g_inside;
    if (!nested) { g_inside = 1; init_once(); }
    pthread_mutex_lock(&g_mtx);
    long ret = -1;
    switch (op) {
    case 0: ret = g_n; break;
    case 1: g_fail_at = g_n + a; g_fail_errno = (int)b; g_faults = 0; g_fault_info[0] = 0; ret = g_n; break;
    case 2: ret = g_faults; break;
    case 3: g_fail_at = 0; ret = g_faults; break;
    case 4:
        if (a && b > 0) snprintf((char *)a, (size_t)b, "%s", g_fault_info);
        ret = g_fault_n;
        break;
    default: break;
    }
    pthread_mutex_unlock(&g_mtx);
    if (!nested) g_inside = 0;
    return ret;
}

#define REAL(name) \
    static __typeof__(name) *real_##name; \
    if (!real_##name) real_##name = (__typeof__(name) *)dlsym(RTLD_NEXT, #name)

#define ENTER() \
    int _nested = g_inside; \
    if (!_nested) { g_inside = 1; init_once(); }
#define ACTIVE() (!_nested && g_nroots > 0)
#define LEAVE() \
    if (!_nested) g_inside = 0

/* ------------------------------------------------------------------------------------------ */
/* path based calls                                                                            */

static int do_open(const char *call, int (*fn)(const char *, int, ...), int (*fnat)(int, const char *, int, ...),
                   int dirfd, const char *path, int flags, mode_t mode) {
    ENTER();
    int ret;
    if (ACTIVE() && (dirfd == AT_FDCWD || (path && path[0] == '/')) && tracked_path(path)) {
        struct rec r = {.call = call, .cls = 's', .path = path, .fd = -1, .flags = flags, .mode = (flags & (O_CREAT | O_TMPFILE)) ? (long)mode : 0, .ferr = EACCES};
        pre(&r);
        if (r.fail) { ret = -1; errno = r.fail; }
        else ret = fn ? fn(path, flags, mode) : fnat(dirfd, path, flags, mode);
        int e = errno;
        if (ret >= 0) fd_set_path(ret, path);
        r.fd = ret;
        post(&r, ret, e);
    } else {
        ret = fn ? fn(path, flags, mode) : fnat(dirfd, path, flags, mode);
        if (ret >= 0 && ret < MAXFD && g_fdpath[ret] && !_nested) fd_set_path(ret, NULL);
    }
    LEAVE();
    return ret;
}

static mode_t va_mode(int flags, va_list ap) {
    if (flags & (O_CREAT | O_TMPFILE)) return (mode_t)va_arg(ap, int);
    return 0;
}

int open(const char *path, int flags, ...) {
    REAL(open);
    va_list ap;
    va_start(ap, flags);
    mode_t m = va_mode(flags, ap);
    va_end(ap);
    return do_open("open", real_open, NULL, AT_FDCWD, path, flags, m);
}

int open64(const char *path, int flags, ...) {
    REAL(open64);
    va_list ap;
    va_start(ap, flags);
    mode_t m = va_mode(flags, ap);
    va_end(ap);
    return do_open("open", real_open64, NULL, AT_FDCWD, path, flags, m);
}

int openat(int dirfd, const char *path, int flags, ...) {
    REAL(openat);
    va_list ap;
    va_start(ap, flags);
    mode_t m = va_mode(flags, ap);
    va_end(ap);
    return do_open("open", NULL, real_openat, dirfd, path, flags, m);
}

int openat64(int dirfd, const char *path, int flags, ...) {
    REAL(openat64);
    va_list ap;
    va_start(ap, flags);
    mode_t m = va_mode(flags, ap);
    va_end(ap);
    return do_open("open", NULL, real_openat64, dirfd, path, flags, m);
}

int creat(const char *path, mode_t mode) { return open(path, O_CREAT | O_WRONLY | O_TRUNC, mode); }
int creat64(const char *path, mode_t mode) { return open64(path, O_CREAT | O_WRONLY | O_TRUNC, mode); }

static void shm_path(char *out, size_t cap, const char *name) {
    snprintf(out, cap, "/dev/shm%s%s", (name && name[0] == '/') ? "" : "/", name ? name : "");
}

int shm_open(const char *name, int flags, mode_t mode) {
    REAL(shm_open);
    ENTER();
    int ret;
    char p[1100];
    shm_path(p, sizeof p, name);
    if (ACTIVE() && tracked_path(p)) {
        struct rec r = {.call = "shm_open", .cls = 's', .path = p, .fd = -1, .flags = flags, .mode = (flags & O_CREAT) ? (long)mode : 0, .ferr = EACCES};
        pre(&r);
        if (r.fail) { ret = -1; errno = r.fail; }
        else ret = real_shm_open(name, flags, mode);
        int e = errno;
        if (ret >= 0) fd_set_path(ret, p);
        r.fd = ret;
        post(&r, ret, e);
    } else {
        ret = real_shm_open(name, flags, mode);
        if (ret >= 0 && ret < MAXFD && g_fdpath[ret] && !_nested) fd_set_path(ret, NULL);
    }
    LEAVE();
    return ret;
}

int shm_unlink(const char *name) {
    REAL(shm_unlink);
    ENTER();
    int ret;
    char p[1100];
    shm_path(p, sizeof p, name);
    if (ACTIVE() && tracked_path(p)) {
        struct rec r = {.call = "shm_unlink", .cls = 's', .path = p, .fd = -1};
        pre(&r);
        ret = real_shm_unlink(name);
        post(&r, ret, errno);
    } else
        ret = real_shm_unlink(name);
    LEAVE();
    return ret;
}

#define PATH_CALL1(name, klass, ARGS, CALLARGS, flagsval, modeval, ferrval) \
    int name ARGS { \
        REAL(name); \
        ENTER(); \
        int ret; \
        if (ACTIVE() && tracked_path(path)) { \
            struct rec r = {.call = #name, .cls = klass, .path = path, .fd = -1, .flags = (flagsval), .mode = (modeval), .ferr = (ferrval)}; \
            pre(&r); \
            if (r.fail) { ret = -1; errno = r.fail; } \
            else ret = real_##name CALLARGS; \
            post(&r, ret, errno); \
        } else \
            ret = real_##name CALLARGS; \
        LEAVE(); \
        return ret; \
    }

PATH_CALL1(unlink, 's', (const char *path), (path), 0, 0, 0)
PATH_CALL1(remove, 's', (const char *path), (path), 0, 0, 0)
PATH_CALL1(rmdir, 's', (const char *path), (path), 0, 0, 0)
PATH_CALL1(mkdir, 's', (const char *path, mode_t mode), (path, mode), 0, (long)mode, EACCES)
PATH_CALL1(chmod, 's', (const char *path, mode_t mode), (path, mode), 0, (long)mode, EPERM)
PATH_CALL1(access, 'o', (const char *path, int amode), (path, amode), amode, 0, 0)
PATH_CALL1(truncate, 's', (const char *path, off_t len), (path, len), (long)len, 0, ENOSPC)

int unlinkat(int dirfd, const char *path, int flags) {
    REAL(unlinkat);
    ENTER();
    int ret;
    if (ACTIVE() && (dirfd == AT_FDCWD || (path && path[0] == '/')) && tracked_path(path)) {
        struct rec r = {.call = (flags & AT_REMOVEDIR) ? "rmdir" : "unlink", .cls = 's', .path = path, .fd = -1, .flags = flags};
        pre(&r);
        ret = real_unlinkat(dirfd, path, flags);
        post(&r, ret, errno);
    } else
        ret = real_unlinkat(dirfd, path, flags);
    LEAVE();
    return ret;
}

int mkdirat(int dirfd, const char *path, mode_t mode) {
    REAL(mkdirat);
    ENTER();
    int ret;
    if (ACTIVE() && (dirfd == AT_FDCWD || (path && path[0] == '/')) && tracked_path(path)) {
        struct rec r = {.call = "mkdir", .cls = 's', .path = path, .fd = -1, .mode = (long)mode, .ferr = EACCES};
        pre(&r);
        if (r.fail) { ret = -1; errno = r.fail; }
        else ret = real_mkdirat(dirfd, path, mode);
        post(&r, ret, errno);
    } else
        ret = real_mkdirat(dirfd, path, mode);
    LEAVE();
    return ret;
}

int rename(const char *oldp, const char *newp) {
    REAL(rename);
    ENTER();
    int ret;
    if (ACTIVE() && (tracked_path(oldp) || tracked_path(newp))) {
        char both[2200];
        snprintf(both, sizeof both, "%s -> %s", oldp ? oldp : "", newp ? newp : "");
        struct rec r = {.call = "rename", .cls = 's', .path = both, .fd = -1, .ferr = EACCES};
        pre(&r);
        if (r.fail) { ret = -1; errno = r.fail; }
        else ret = real_rename(oldp, newp);
        post(&r, ret, errno);
    } else
        ret = real_rename(oldp, newp);
    LEAVE();
    return ret;
}

int stat(const char *path, struct stat *st) {
    REAL(stat);
    ENTER();
    int ret;
    if (ACTIVE() && tracked_path(path)) {
        struct rec r = {.call = "stat", .cls = 'o', .path = path, .fd = -1};
        pre(&r);
        ret = real_stat(path, st);
        int e = errno;
        if (ret == 0) r.mode = (long)(st->st_mode & 07777), r.flags = (long)st->st_nlink;
        post(&r, ret, e);
    } else
        ret = real_stat(path, st);
    LEAVE();
    return ret;
}

int stat64(const char *path, struct stat64 *st) {
    REAL(stat64);
    ENTER();
    int ret;
    if (ACTIVE() && tracked_path(path)) {
        struct rec r = {.call = "stat", .cls = 'o', .path = path, .fd = -1};
        pre(&r);
        ret = real_stat64(path, st);
        int e = errno;
        if (ret == 0) r.mode = (long)(st->st_mode & 07777), r.flags = (long)st->st_nlink;
        post(&r, ret, e);
    } else
        ret = real_stat64(path, st);
    LEAVE();
    return ret;
}

DIR *opendir(const char *path) {
    REAL(opendir);
    ENTER();
    DIR *ret;
    if (ACTIVE() && tracked_path(path)) {
        struct rec r = {.call = "opendir", .cls = 'o', .path = path, .fd = -1};
        pre(&r);
        ret = real_opendir(path);
        int e = errno;
        if (ret) fd_set_path(dirfd(ret), path); /* fchmod(dirfd) after mkdir is a state-changing call */
        post(&r, ret ? 0 : -1, e);
    } else
        ret = real_opendir(path);
    LEAVE();
    return ret;
}

int closedir(DIR *d) {
    REAL(closedir);
    ENTER();
    if (!_nested && d) {
        int fd = dirfd(d);
        if (fd_path(fd)) fd_set_path(fd, NULL);
    }
    int ret = real_closedir(d);
    LEAVE();
    return ret;
}

int bind(int fd, const struct sockaddr *addr, socklen_t len) {
    REAL(bind);
    ENTER();
    int ret;
    const char *p = NULL;
    char pbuf[120];
    if (addr && addr->sa_family == AF_UNIX && len > offsetof(struct sockaddr_un, sun_path)) {
        const struct sockaddr_un *un = (const struct sockaddr_un *)addr;
        size_t n = len - offsetof(struct sockaddr_un, sun_path);
        if (n >= sizeof pbuf) n = sizeof pbuf - 1;
        memcpy(pbuf, un->sun_path, n);
        pbuf[n] = 0;
        p = pbuf;
    }
    if (ACTIVE() && p && tracked_path(p)) {
        struct rec r = {.call = "bind", .cls = 's', .path = p, .fd = fd, .ferr = EACCES};
        pre(&r);
        if (r.fail) { ret = -1; errno = r.fail; }
        else ret = real_bind(fd, addr, len);
        int e = errno;
        if (ret == 0) fd_set_path(fd, p);
        post(&r, ret, e);
    } else
        ret = real_bind(fd, addr, len);
    LEAVE();
    return ret;
}

/* ------------------------------------------------------------------------------------------ */
/* descriptor based calls                                                                      */

int close(int fd) {
    REAL(close);
    ENTER();
    int ret;
    const char *p = _nested ? NULL : fd_path(fd);
    if (ACTIVE() && p) {
        char pc[2200];
        snprintf(pc, sizeof pc, "%s", p);
        struct rec r = {.call = "close", .cls = 's', .path = pc, .fd = fd};
        pre(&r);
        ret = real_close(fd);
        int e = errno;
        fd_set_path(fd, NULL);
        post(&r, ret, e);
    } else {
        if (fd == g_logfd || fd == g_ackfd || fd == g_ctlfd) {
            LEAVE();
            errno = EBADF;
            return -1;
        }
        ret = real_close(fd);
    }
    LEAVE();
    return ret;
}

int dup(int fd) {
    REAL(dup);
    ENTER();
    int ret = real_dup(fd);
    int e = errno;
    if (!_nested && ret >= 0) fd_set_path(ret, fd_path(fd));
    LEAVE();
    errno = e;
    return ret;
}

#define FD_CALL(name, klass, ARGS, CALLARGS, flagsval, modeval, ferrval) \
    int name ARGS { \
        REAL(name); \
        ENTER(); \
        int ret; \
        const char *p = _nested ? NULL : fd_path(fd); \
        if (ACTIVE() && p) { \
            struct rec r = {.call = #name, .cls = klass, .path = p, .fd = fd, .flags = (flagsval), .mode = (modeval), .ferr = (ferrval)}; \
            pre(&r); \
            if (r.fail) { ret = -1; errno = r.fail; } \
            else ret = real_##name CALLARGS; \
            post(&r, ret, errno); \
        } else \
            ret = real_##name CALLARGS; \
        LEAVE(); \
        return ret; \
    }

FD_CALL(ftruncate, 's', (int fd, off_t len), (fd, len), (long)len, 0, ENOSPC)
FD_CALL(fchmod, 's', (int fd, mode_t mode), (fd, mode), 0, (long)mode, EPERM)
FD_CALL(fchown, 's', (int fd, uid_t u, gid_t g), (fd, u, g), (long)u, (long)g, EPERM)
FD_CALL(flock, 's', (int fd, int op), (fd, op), op, 0, ENOLCK)

int ftruncate64(int fd, off64_t len) {
    REAL(ftruncate64);
    ENTER();
    int ret;
    const char *p = _nested ? NULL : fd_path(fd);
    if (ACTIVE() && p) {
        struct rec r = {.call = "ftruncate", .cls = 's', .path = p, .fd = fd, .flags = (long)len, .ferr = ENOSPC};
        pre(&r);
        if (r.fail) { ret = -1; errno = r.fail; }
        else ret = real_ftruncate64(fd, len);
        post(&r, ret, errno);
    } else
        ret = real_ftruncate64(fd, len);
    LEAVE();
    return ret;
}

int fstat(int fd, struct stat *st) {
    REAL(fstat);
    ENTER();
    int ret;
    const char *p = _nested ? NULL : fd_path(fd);
    if (ACTIVE() && p) {
        struct rec r = {.call = "fstat", .cls = 'o', .path = p, .fd = fd};
        pre(&r);
        ret = real_fstat(fd, st);
        int e = errno;
        if (ret == 0) r.mode = (long)(st->st_mode & 07777), r.flags = (long)st->st_nlink;
        post(&r, ret, e);
    } else
        ret = real_fstat(fd, st);
    LEAVE();
    return ret;
}

int fstat64(int fd, struct stat64 *st) {
    REAL(fstat64);
    ENTER();
    int ret;
    const char *p = _nested ? NULL : fd_path(fd);
    if (ACTIVE() && p) {
        struct rec r = {.call = "fstat", .cls = 'o', .path = p, .fd = fd};
        pre(&r);
        ret = real_fstat64(fd, st);
        int e = errno;
        if (ret == 0) r.mode = (long)(st->st_mode & 07777), r.flags = (long)st->st_nlink;
        post(&r, ret, e);
    } else
        ret = real_fstat64(fd, st);
    LEAVE();
    return ret;
}

ssize_t write(int fd, const void *buf, size_t len) {
    REAL(write);
    ENTER();
    ssize_t ret;
    const char *p = _nested ? NULL : fd_path(fd);
    if (ACTIVE() && p) {
        struct rec r = {.call = "write", .cls = 's', .path = p, .fd = fd, .flags = (long)len, .ferr = ENOSPC};
        pre(&r);
        if (r.fail) { ret = -1; errno = r.fail; }
        else ret = real_write(fd, buf, len);
        post(&r, (long)ret, errno);
    } else
        ret = real_write(fd, buf, len);
    LEAVE();
    return ret;
}

ssize_t read(int fd, void *buf, size_t len) {
    REAL(read);
    ENTER();
    ssize_t ret;
    const char *p = _nested ? NULL : fd_path(fd);
    if (ACTIVE() && p) {
        struct rec r = {.call = "read", .cls = 'o', .path = p, .fd = fd, .flags = (long)len};
        pre(&r);
        ret = real_read(fd, buf, len);
        post(&r, (long)ret, errno);
    } else
        ret = real_read(fd, buf, len);
    LEAVE();
    return ret;
}

void *mmap(void *addr, size_t len, int prot, int flags, int fd, off_t off) {
    REAL(mmap);
    ENTER();
    void *ret;
    const char *p = (_nested || fd < 0) ? NULL : fd_path(fd);
    if (ACTIVE() && p) {
        struct rec r = {.call = "mmap", .cls = 's', .path = p, .fd = fd, .flags = (long)len, .mode = prot, .ferr = ENOMEM};
        pre(&r);
        if (r.fail) { ret = MAP_FAILED; errno = r.fail; }
        else ret = real_mmap(addr, len, prot, flags, fd, off);
        int e = errno;
        post(&r, ret == MAP_FAILED ? -1 : 0, e);
    } else
        ret = real_mmap(addr, len, prot, flags, fd, off);
    LEAVE();
    return ret;
}

void *mmap64(void *addr, size_t len, int prot, int flags, int fd, off64_t off) {
    REAL(mmap64);
    ENTER();
    void *ret;
    const char *p = (_nested || fd < 0) ? NULL : fd_path(fd);
    if (ACTIVE() && p) {
        struct rec r = {.call = "mmap", .cls = 's', .path = p, .fd = fd, .flags = (long)len, .mode = prot, .ferr = ENOMEM};
        pre(&r);
        if (r.fail) { ret = MAP_FAILED; errno = r.fail; }
        else ret = real_mmap64(addr, len, prot, flags, fd, off);
        int e = errno;
        post(&r, ret == MAP_FAILED ? -1 : 0, e);
    } else
        ret = real_mmap64(addr, len, prot, flags, fd, off);
    LEAVE();
    return ret;
}

static int is_lock_cmd(int cmd) {
    return cmd == F_SETLK || cmd == F_SETLKW || cmd == F_GETLK
#ifdef F_OFD_SETLK
           || cmd == F_OFD_SETLK || cmd == F_OFD_SETLKW || cmd == F_OFD_GETLK
#endif
        ;
}

static const char *cmd_name(int cmd) {
    switch (cmd) {
    case F_SETLK: return "F_SETLK";
    case F_SETLKW: return "F_SETLKW";
    case F_GETLK: return "F_GETLK";
#ifdef F_OFD_SETLK
    case F_OFD_SETLK: return "F_OFD_SETLK";
    case F_OFD_SETLKW: return "F_OFD_SETLKW";
    case F_OFD_GETLK: return "F_OFD_GETLK";
#endif
    default: return "?";
    }
}

static int do_fcntl(int (*fn)(int, int, ...), int fd, int cmd, void *arg) {
    ENTER();
    int ret;
    const char *p = _nested ? NULL : fd_path(fd);
    if (ACTIVE() && p && is_lock_cmd(cmd) && arg) {
        struct flock *fl = (struct flock *)arg;
        int get = (cmd == F_GETLK)
#ifdef F_OFD_GETLK
                  || (cmd == F_OFD_GETLK)
#endif
            ;
        struct rec r = {.call = "fcntl", .cls = get ? 'o' : 's', .path = p, .fd = fd, .cmd = cmd_name(cmd), .lt = ltype_name(fl->l_type), .rt = "", .ferr = (get || fl->l_type == F_UNLCK) ? 0 : ENOLCK};
        pre(&r);
        if (r.fail) { ret = -1; errno = r.fail; }
        else ret = fn(fd, cmd, arg);
        int e = errno;
        if (get && ret == 0) {
            r.rt = ltype_name(fl->l_type);
            r.rpid = fl->l_type == F_UNLCK ? 0 : (long)fl->l_pid;
        }
        post(&r, ret, e);
    } else {
        ret = fn(fd, cmd, arg);
        int e = errno;
        if (!_nested && ret >= 0 && (cmd == F_DUPFD || cmd == F_DUPFD_CLOEXEC)) fd_set_path(ret, fd_path(fd));
        errno = e;
    }
    LEAVE();
    return ret;
}

int fcntl(int fd, int cmd, ...) {
    REAL(fcntl);
    va_list ap;
    va_start(ap, cmd);
    void *arg = va_arg(ap, void *);
    va_end(ap);
    return do_fcntl(real_fcntl, fd, cmd, arg);
}

int fcntl64(int fd, int cmd, ...) {
    REAL(fcntl64);
    va_list ap;
    va_start(ap, cmd);
    void *arg = va_arg(ap, void *);
    va_end(ap);
    return do_fcntl(real_fcntl64 ? real_fcntl64 : (int (*)(int, int, ...))dlsym(RTLD_NEXT, "fcntl"), fd, cmd, arg);
}
