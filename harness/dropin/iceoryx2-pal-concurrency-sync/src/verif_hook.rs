//! Hook interface of the instrumented atomics (DESIGN.md 3.1).
//! With no hook installed every atomic operation costs one additional relaxed load.

use core::sync::atomic::{AtomicUsize, Ordering};

#[derive(Debug, Clone, Copy, PartialEq, Eq)]
#[repr(u8)]
pub enum Kind {
    Load = 0,
    Store = 1,
    Swap = 2,
    Cas = 3,
    CasWeak = 4,
    FetchAdd = 5,
    FetchSub = 6,
    FetchAnd = 7,
    FetchNand = 8,
    FetchOr = 9,
    FetchXor = 10,
    FetchMax = 11,
    FetchMin = 12,
    FetchUpdate = 13,
    Fence = 14,
}

impl Kind {
    pub fn name(&self) -> &'static str {
        match self {
            Kind::Load => "load",
            Kind::Store => "store",
            Kind::Swap => "swap",
            Kind::Cas => "cas",
            Kind::CasWeak => "cas_weak",
            Kind::FetchAdd => "fetch_add",
            Kind::FetchSub => "fetch_sub",
            Kind::FetchAnd => "fetch_and",
            Kind::FetchNand => "fetch_nand",
            Kind::FetchOr => "fetch_or",
            Kind::FetchXor => "fetch_xor",
            Kind::FetchMax => "fetch_max",
            Kind::FetchMin => "fetch_min",
            Kind::FetchUpdate => "fetch_update",
            Kind::Fence => "fence",
        }
    }
    pub fn is_write(&self) -> bool {
        !matches!(self, Kind::Load | Kind::Fence)
    }
}

pub fn ord_name(o: Ordering) -> &'static str {
    match o {
        Ordering::Relaxed => "Relaxed",
        Ordering::Release => "Release",
        Ordering::Acquire => "Acquire",
        Ordering::AcqRel => "AcqRel",
        Ordering::SeqCst => "SeqCst",
        _ => "Unknown",
    }
}

/// Description of one atomic access, handed to the hooks.
#[derive(Debug, Clone, Copy)]
pub struct Site {
    pub addr: usize,
    pub width: u8,
    pub kind: Kind,
    pub ord: Ordering,
    /// failure ordering of CAS / fetch ordering of fetch_update, otherwise == ord
    pub ordf: Ordering,
    /// operand: stored value / addend / mask / `new` of a CAS
    pub operand: u64,
    /// `current` of a CAS
    pub expected: u64,
    pub file: &'static str,
    pub line: u32,
}

pub type PreFn = fn(&Site);
/// (site, value read, value written, success)
pub type PostFn = fn(&Site, u64, u64, bool);

static PRE: AtomicUsize = AtomicUsize::new(0);
static POST: AtomicUsize = AtomicUsize::new(0);

/// Installs the hooks for the whole process. Passing `None` removes them.
pub fn install(pre: Option<PreFn>, post: Option<PostFn>) {
    PRE.store(pre.map(|f| f as usize).unwrap_or(0), Ordering::SeqCst);
    POST.store(post.map(|f| f as usize).unwrap_or(0), Ordering::SeqCst);
}

#[inline(always)]
pub(crate) fn pre(site: &Site) {
    let p = PRE.load(Ordering::Relaxed);
    if p != 0 {
        let f: PreFn = unsafe { core::mem::transmute::<usize, PreFn>(p) };
        f(site)
    }
}

#[inline(always)]
pub(crate) fn post(site: &Site, rd: u64, wr: u64, ok: bool) {
    let p = POST.load(Ordering::Relaxed);
    if p != 0 {
        let f: PostFn = unsafe { core::mem::transmute::<usize, PostFn>(p) };
        f(site, rd, wr, ok)
    }
}

#[inline(always)]
pub(crate) fn active() -> bool {
    PRE.load(Ordering::Relaxed) != 0 || POST.load(Ordering::Relaxed) != 0
}
