// Drop-in replacement of iceoryx2-pal-concurrency-sync used only by the /verif harness.
// Every module except `atomic` is compiled from the CURRENT /repo tree; `atomic` wraps the
// original type aliases into hookable #[repr(transparent)] new-types (see atomic.rs).
#![cfg_attr(not(feature = "std"), no_std)]
#![allow(clippy::all)]
#![allow(unexpected_cfgs)]

extern crate alloc;

#[allow(dead_code)]
const SPIN_REPETITIONS: u64 = 10000;

pub mod atomic;
#[path = "/repo/iceoryx2-pal/concurrency-sync/src/cell.rs"]
pub mod cell;
#[path = "/repo/iceoryx2-pal/concurrency-sync/src/lazy_lock.rs"]
pub mod lazy_lock;
#[path = "/repo/iceoryx2-pal/concurrency-sync/src/once.rs"]
pub mod once;
#[path = "/repo/iceoryx2-pal/concurrency-sync/src/spin_lock.rs"]
pub mod spin_lock;
#[path = "/repo/iceoryx2-pal/concurrency-sync/src/strategy/mod.rs"]
pub mod strategy;

#[derive(Debug, PartialEq, Eq)]
pub enum WaitAction {
    Continue,
    Abort,
}

#[derive(Debug, PartialEq, Eq)]
pub enum WaitResult {
    Interrupted,
    Success,
}

pub mod verif_hook;
