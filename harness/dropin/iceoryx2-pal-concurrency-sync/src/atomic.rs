//! Instrumented atomics. The original file is included unchanged into a private module so
//! that `Ordering`, the lock-based `Atomic<T>` and `internal` stay exactly what /repo defines;
//! the lock-free atomic *type aliases* are replaced by #[repr(transparent)] wrappers with the
//! complete method surface of the core atomics. Layout is unchanged (these atomics live in
//! #[repr(C)] shared-memory structures).

#[allow(unused_imports, dead_code)]
mod orig {
    include!("/repo/iceoryx2-pal/concurrency-sync/src/atomic.rs");
}

pub use orig::Atomic;
pub use orig::Ordering;
pub use orig::internal;

use crate::verif_hook::{self as hook, Kind, Site};
use core::panic::Location;

#[inline]
#[track_caller]
pub fn fence(order: Ordering) {
    if hook::active() {
        let loc = Location::caller();
        let site = Site {
            addr: 0,
            width: 0,
            kind: Kind::Fence,
            ord: order,
            ordf: order,
            operand: 0,
            expected: 0,
            file: loc.file(),
            line: loc.line(),
        };
        hook::pre(&site);
        core::sync::atomic::fence(order);
        hook::post(&site, 0, 0, true);
    } else {
        core::sync::atomic::fence(order);
    }
}

macro_rules! site {
    ($self:ident, $kind:expr, $ord:expr, $ordf:expr, $operand:expr, $expected:expr, $t:ty) => {{
        let loc = Location::caller();
        Site {
            addr: $self.0.as_ptr() as usize,
            width: core::mem::size_of::<$t>() as u8,
            kind: $kind,
            ord: $ord,
            ordf: $ordf,
            operand: $operand,
            expected: $expected,
            file: loc.file(),
            line: loc.line(),
        }
    }};
}

macro_rules! common_methods {
    ($name:ident, $core:ident, $t:ty, $conv:expr) => {
        impl $name {
            #[inline]
            pub const fn new(v: $t) -> Self {
                Self(core::sync::atomic::$core::new(v))
            }
            #[inline]
            pub const fn as_ptr(&self) -> *mut $t {
                self.0.as_ptr()
            }
            #[inline]
            pub fn get_mut(&mut self) -> &mut $t {
                self.0.get_mut()
            }
            #[inline]
            pub const fn into_inner(self) -> $t {
                self.0.into_inner()
            }
            /// # Safety
            /// see core::sync::atomic::*::from_ptr
            #[inline]
            pub const unsafe fn from_ptr<'a>(ptr: *mut $t) -> &'a Self {
                unsafe { &*(ptr as *const Self) }
            }

            #[inline]
            #[track_caller]
            pub fn load(&self, order: Ordering) -> $t {
                if !hook::active() {
                    return self.0.load(order);
                }
                let s = site!(self, Kind::Load, order, order, 0, 0, $t);
                hook::pre(&s);
                let v = self.0.load(order);
                hook::post(&s, $conv(v), 0, true);
                v
            }

            #[inline]
            #[track_caller]
            pub fn store(&self, val: $t, order: Ordering) {
                if !hook::active() {
                    return self.0.store(val, order);
                }
                let s = site!(self, Kind::Store, order, order, $conv(val), 0, $t);
                hook::pre(&s);
                self.0.store(val, order);
                hook::post(&s, 0, $conv(val), true);
            }

            #[inline]
            #[track_caller]
            pub fn swap(&self, val: $t, order: Ordering) -> $t {
                if !hook::active() {
                    return self.0.swap(val, order);
                }
                let s = site!(self, Kind::Swap, order, order, $conv(val), 0, $t);
                hook::pre(&s);
                let old = self.0.swap(val, order);
                hook::post(&s, $conv(old), $conv(val), true);
                old
            }

            #[inline]
            #[track_caller]
            pub fn compare_exchange(
                &self,
                current: $t,
                new: $t,
                success: Ordering,
                failure: Ordering,
            ) -> Result<$t, $t> {
                if !hook::active() {
                    return self.0.compare_exchange(current, new, success, failure);
                }
                let s = site!(self, Kind::Cas, success, failure, $conv(new), $conv(current), $t);
                hook::pre(&s);
                let r = self.0.compare_exchange(current, new, success, failure);
                match r {
                    Ok(old) => hook::post(&s, $conv(old), $conv(new), true),
                    Err(old) => hook::post(&s, $conv(old), $conv(old), false),
                }
                r
            }

            #[inline]
            #[track_caller]
            pub fn compare_exchange_weak(
                &self,
                current: $t,
                new: $t,
                success: Ordering,
                failure: Ordering,
            ) -> Result<$t, $t> {
                if !hook::active() {
                    return self.0.compare_exchange_weak(current, new, success, failure);
                }
                let s = site!(self, Kind::CasWeak, success, failure, $conv(new), $conv(current), $t);
                hook::pre(&s);
                // under the hook the weak variant never fails spuriously (deterministic replay)
                let r = self.0.compare_exchange(current, new, success, failure);
                match r {
                    Ok(old) => hook::post(&s, $conv(old), $conv(new), true),
                    Err(old) => hook::post(&s, $conv(old), $conv(old), false),
                }
                r
            }

            #[inline]
            #[track_caller]
            pub fn fetch_update<F>(
                &self,
                set_order: Ordering,
                fetch_order: Ordering,
                mut f: F,
            ) -> Result<$t, $t>
            where
                F: FnMut($t) -> Option<$t>,
            {
                if !hook::active() {
                    return self.0.fetch_update(set_order, fetch_order, f);
                }
                // expressed through the hooked load / compare_exchange so every access is visible
                let mut prev = self.load(fetch_order);
                while let Some(next) = f(prev) {
                    match self.compare_exchange_weak(prev, next, set_order, fetch_order) {
                        x @ Ok(_) => return x,
                        Err(next_prev) => prev = next_prev,
                    }
                }
                Err(prev)
            }
        }

        impl Default for $name {
            fn default() -> Self {
                Self::new(Default::default())
            }
        }

        impl core::fmt::Debug for $name {
            fn fmt(&self, f: &mut core::fmt::Formatter<'_>) -> core::fmt::Result {
                core::fmt::Debug::fmt(&self.0, f)
            }
        }

        impl From<$t> for $name {
            fn from(v: $t) -> Self {
                Self::new(v)
            }
        }
    };
}

macro_rules! rmw {
    ($name:ident, $t:ty, $conv:expr, $method:ident, $kind:expr, $new:expr) => {
        impl $name {
            #[inline]
            #[track_caller]
            pub fn $method(&self, val: $t, order: Ordering) -> $t {
                if !hook::active() {
                    return self.0.$method(val, order);
                }
                let s = site!(self, $kind, order, order, $conv(val), 0, $t);
                hook::pre(&s);
                let old = self.0.$method(val, order);
                let f: fn($t, $t) -> $t = $new;
                hook::post(&s, $conv(old), $conv(f(old, val)), true);
                old
            }
        }
    };
}

macro_rules! int_atomic {
    ($name:ident, $t:ty) => {
        /// Instrumented replacement of the corresponding `core::sync::atomic` type
        #[repr(transparent)]
        pub struct $name(core::sync::atomic::$name);
        common_methods!($name, $name, $t, |v: $t| v as u64);
        rmw!($name, $t, |v: $t| v as u64, fetch_add, Kind::FetchAdd, |o, v| o.wrapping_add(v));
        rmw!($name, $t, |v: $t| v as u64, fetch_sub, Kind::FetchSub, |o, v| o.wrapping_sub(v));
        rmw!($name, $t, |v: $t| v as u64, fetch_and, Kind::FetchAnd, |o, v| o & v);
        rmw!($name, $t, |v: $t| v as u64, fetch_nand, Kind::FetchNand, |o, v| !(o & v));
        rmw!($name, $t, |v: $t| v as u64, fetch_or, Kind::FetchOr, |o, v| o | v);
        rmw!($name, $t, |v: $t| v as u64, fetch_xor, Kind::FetchXor, |o, v| o ^ v);
        rmw!($name, $t, |v: $t| v as u64, fetch_max, Kind::FetchMax, |o, v| o.max(v));
        rmw!($name, $t, |v: $t| v as u64, fetch_min, Kind::FetchMin, |o, v| o.min(v));
    };
}

int_atomic!(AtomicU8, u8);
int_atomic!(AtomicU16, u16);
int_atomic!(AtomicU32, u32);
int_atomic!(AtomicU64, u64);
int_atomic!(AtomicUsize, usize);
int_atomic!(AtomicI8, i8);
int_atomic!(AtomicI16, i16);
int_atomic!(AtomicI32, i32);
int_atomic!(AtomicI64, i64);
int_atomic!(AtomicIsize, isize);

/// Instrumented replacement of `core::sync::atomic::AtomicBool`
#[repr(transparent)]
pub struct AtomicBool(core::sync::atomic::AtomicBool);
common_methods!(AtomicBool, AtomicBool, bool, |v: bool| v as u64);
rmw!(AtomicBool, bool, |v: bool| v as u64, fetch_and, Kind::FetchAnd, |o, v| o & v);
rmw!(AtomicBool, bool, |v: bool| v as u64, fetch_nand, Kind::FetchNand, |o, v| !(o & v));
rmw!(AtomicBool, bool, |v: bool| v as u64, fetch_or, Kind::FetchOr, |o, v| o | v);
rmw!(AtomicBool, bool, |v: bool| v as u64, fetch_xor, Kind::FetchXor, |o, v| o ^ v);
