"""Shared orchestration library of the /verif checks (DESIGN.md 3.8).

Exit codes of a check:  0 = property held on everything explored (possibly with KNOWN-FINDING
lines), 1 = violation (a `VIOLATION property=<id> replay=<path>` line was printed),
2 = tool error / timeout (never reported as a violation).
"""
import json
import os
import re
import shutil
import subprocess
import sys
import time

VERIF = os.path.dirname(os.path.dirname(os.path.abspath(__file__)))
HARNESS = os.path.join(VERIF, "harness")
SPEC = os.path.join(VERIF, "spec")
WORK = os.path.join(VERIF, "work")
EVIDENCE = os.path.join(VERIF, "evidence")
REPLAYS = os.path.join(VERIF, "replays")
TARGET_BIN = os.path.join(HARNESS, "target", "debug")
REPO = os.environ.get("VERIF_REPO", "/repo")


class ToolError(Exception):
    pass


class Violation(Exception):
    """A property violation. `signature` is matched against known_findings.json."""

    def __init__(self, what, replay=None, signature=None):
        super().__init__(what)
        self.what = what
        self.replay = replay or {}
        self.signature = signature


def log(*a):
    print(*a, file=sys.stderr, flush=True)


# ---------------------------------------------------------------------------------------------
# context

class Ctx:
    def __init__(self, pid, tier, seed, replay=False):
        self.pid = pid
        self.tier = tier
        self.seed = seed
        self.quick = tier == "quick"
        self.t0 = time.time()
        self.work = os.path.join(WORK, f"{pid}-replay" if replay else f"{pid}-{tier}")
        shutil.rmtree(self.work, ignore_errors=True)
        os.makedirs(self.work, exist_ok=True)
        self.coverage = {}
        self.samples = []
        self.assumptions = []
        self.states = 0
        self.transitions = 0
        self.traces_validated = 0
        self.evaluations = 0
        self.distinct = 0
        self.violations = []       # unlisted violations
        self.known_hits = []       # known findings that were re-observed
        self.notes = []
        self.tlc_runs = []

    def path(self, *p):
        d = os.path.join(self.work, *p)
        os.makedirs(os.path.dirname(d), exist_ok=True)
        return d

    def elapsed(self):
        return time.time() - self.t0

    def sample(self, s, limit=6):
        if len(self.samples) < limit:
            self.samples.append(s)

    def note(self, s):
        log("note:", s)
        self.notes.append(s)

    # -------- violations / known findings
    def report(self, v: Violation):
        known = load_known_findings()
        for k in known:
            if k.get("property") == self.pid and k.get("status") == "known" and v.signature \
                    and k.get("signature") == v.signature:
                if v.signature not in [h[0] for h in self.known_hits]:
                    self.known_hits.append((v.signature, k.get("description", v.what)))
                return
        self.violations.append(v)


def load_known_findings():
    p = os.path.join(VERIF, "known_findings.json")
    if not os.path.exists(p):
        return []
    with open(p) as f:
        return json.load(f).get("findings", [])


# ---------------------------------------------------------------------------------------------
# building and running the Rust harness

_built = set()


def cargo_build(packages=None, timeout=3000):
    """Builds (incrementally) the harness against the CURRENT /repo tree."""
    key = tuple(sorted(packages or []))
    if key in _built:
        return
    cmd = ["cargo", "build", "--offline", "--quiet"]
    for p in packages or []:
        cmd += ["-p", p]
    env = dict(os.environ)
    env.setdefault("CARGO_NET_OFFLINE", "true")
    t0 = time.time()
    r = subprocess.run(cmd, cwd=HARNESS, env=env, stdout=subprocess.PIPE, stderr=subprocess.STDOUT,
                       text=True, timeout=timeout)
    if r.returncode != 0:
        tail = "\n".join(l for l in r.stdout.splitlines() if not l.startswith("warning: path override")
                         )[-6000:]
        raise ToolError(f"cargo build failed ({' '.join(cmd)}):\n{tail}")
    log(f"cargo build {' '.join(packages or ['(all)'])}: {time.time() - t0:.1f}s")
    _built.add(key)


def run_driver(binary, args, timeout=600, env=None, ok_codes=(0,), cwd=None, stdin=None):
    """Runs a harness binary; returns (returncode, stdout, stderr)."""
    exe = os.path.join(TARGET_BIN, binary)
    e = dict(os.environ)
    e.setdefault("IOX2_LOG_LEVEL", "fatal")
    if env:
        e.update({k: str(v) for k, v in env.items()})
    try:
        r = subprocess.run([exe] + [str(a) for a in args], stdout=subprocess.PIPE,
                           stderr=subprocess.PIPE, text=True, timeout=timeout, env=e, cwd=cwd,
                           input=stdin)
    except subprocess.TimeoutExpired as ex:
        raise ToolError(f"driver {binary} {' '.join(map(str, args))} timed out after {timeout}s") from ex
    if ok_codes is not None and r.returncode not in ok_codes:
        raise ToolError(f"driver {binary} {' '.join(map(str, args))} exited {r.returncode}:\n"
                        f"{r.stdout[-3000:]}\n{r.stderr[-3000:]}")
    return r.returncode, r.stdout, r.stderr


def last_json_line(out):
    for line in reversed(out.strip().splitlines()):
        line = line.strip()
        if line.startswith("{"):
            return json.loads(line)
    raise ToolError("driver printed no JSON summary:\n" + out[-2000:])


# ---------------------------------------------------------------------------------------------
# TLC

JAVA_OPTS_BASE = f"-DTLA-Library={SPEC}/lib"


class TlcResult:
    def __init__(self):
        self.ok = False
        self.generated = 0
        self.distinct = 0
        self.depth = 0
        self.violated = None       # name of the violated invariant / property
        self.error = None          # other error text
        self.output = ""
        self.coverage = {}         # action name -> (distinct, total)
        self.prints = []           # PrintT outputs (raw lines)
        self.cex = []              # counterexample: list of (action label, state text)
        self.wall = 0.0
        self.timed_out = False


_re_states = re.compile(r"(\d+) states generated, (\d+) distinct states found")
_re_depth = re.compile(r"The depth of the complete state graph search is (\d+)")
_re_inv = re.compile(r"Error: Invariant (\S+) is violated")
_re_prop = re.compile(r"Error: (Temporal properties were violated|Action property (\S+) is violated|Deadlock reached)")
_re_cov = re.compile(r"^<(\w+) line (\d+), col \d+ to line \d+, col \d+ of module (\w+)>: (\d+):(\d+)")
_re_state_hdr = re.compile(r"^State (\d+): <(.*)>$")


def tlc(spec_dir, module, cfg=None, workers=8, timeout=600, env=None, coverage=True, simulate=None,
        extra=None, metadir=None, heap="8g", deque=False, dump=None, cont=False, libs=None):
    """Runs TLC on spec/<spec_dir>/<module>.tla (spec_dir may be absolute, e.g. a work directory
    holding a generated MC module; `libs` = further spec sub-directories on the module path);
    never raises on a property violation."""
    d = spec_dir if os.path.isabs(spec_dir) else os.path.join(SPEC, spec_dir)
    libpath = ":".join([f"{SPEC}/lib", d] + [os.path.join(SPEC, x) for x in (libs or [])])
    cfg = cfg or (module + ".cfg")
    metadir = metadir or os.path.join(WORK, "tlc", f"{module}-{os.getpid()}-{int(time.time()*1000)%100000}")
    os.makedirs(metadir, exist_ok=True)
    cmd = ["timeout", str(int(timeout)), "java", "-XX:+UseParallelGC", f"-Xmx{heap}", "-Xss1g",
           f"-DTLA-Library={libpath}"]
    if deque:
        cmd.append("-Dtlc2.tool.queue.IStateQueue=StateDeque")
    cmd += ["-cp", "/opt/veriftools/tla/tla2tools.jar:/opt/veriftools/tla/CommunityModules-deps.jar",
            "tlc2.TLC", "-workers", str(workers), "-metadir", metadir, "-cleanup", "-noGenerateSpecTE",
            "-config", cfg]
    if coverage and not simulate:
        cmd += ["-coverage", "1"]
    if simulate:
        cmd += ["-simulate", simulate]
    if dump:
        cmd += ["-dump", dump[0], dump[1]]
    if cont:
        cmd += ["-continue"]
    if extra:
        cmd += extra
    cmd.append(module + ".tla")
    e = dict(os.environ)
    e.pop("JAVA_TOOL_OPTIONS", None)
    if env:
        e.update({k: str(v) for k, v in env.items()})
    t0 = time.time()
    r = subprocess.run(cmd, cwd=d, env=e, stdout=subprocess.PIPE, stderr=subprocess.STDOUT, text=True)
    res = TlcResult()
    res.wall = time.time() - t0
    res.output = r.stdout
    shutil.rmtree(metadir, ignore_errors=True)
    if r.returncode == 124:
        res.timed_out = True
    cur_cov = {}
    in_cex = False
    cur_state = None
    for line in r.stdout.splitlines():
        m = _re_states.search(line)
        if m:
            res.generated, res.distinct = int(m.group(1)), int(m.group(2))
        m = _re_depth.search(line)
        if m:
            res.depth = int(m.group(1))
        m = _re_inv.search(line)
        if m:
            res.violated = m.group(1)
        m = _re_prop.search(line)
        if m and not res.violated:
            res.violated = m.group(2) or m.group(1)
        m = _re_cov.match(line)
        if m:
            name, mod, dist, tot = m.group(1), m.group(3), int(m.group(4)), int(m.group(5))
            a, b = cur_cov.get(name, (0, 0))
            cur_cov[name] = (a + dist, b + tot)
        if line.startswith("<<") or line.startswith('"'):
            res.prints.append(line)
        m = _re_state_hdr.match(line)
        if m:
            cur_state = [m.group(2), []]
            res.cex.append(cur_state)
        elif cur_state is not None:
            if line.startswith("/\\") or line.startswith("  ") or line.startswith("|->"):
                cur_state[1].append(line)
            elif line.strip() == "":
                cur_state = None
        if "Error:" in line and res.error is None and not _re_inv.search(line) and not _re_prop.search(line):
            if "Postcondition" in line:
                res.violated = res.violated or "POSTCONDITION"
            else:
                res.error = line
    res.coverage = cur_cov
    res.ok = (r.returncode == 0 and res.violated is None and res.error is None)
    if res.error and not res.violated and "Finished in" not in r.stdout and not res.timed_out:
        pass
    return res


def tlc_require_ok(res: TlcResult, what):
    """For design checks that must pass on the spec itself: anything else is a tool error."""
    if res.timed_out:
        raise ToolError(f"TLC timed out: {what}")
    if not res.ok:
        raise ToolError(f"TLC did not accept {what}: violated={res.violated} error={res.error}\n"
                        + res.output[-4000:])


_re_rej = re.compile(r'<<"TRACE_REJECTED", (\d+), "(.*)">>')
_re_acc = re.compile(r'<<"TRACE_ACCEPTED", (\d+)>>')


class TraceVerdict:
    def __init__(self):
        self.accepted = False
        self.pos = None
        self.record = None
        self.records = 0
        self.res = None
        self.invariant = None


def tlc_trace(spec_dir, module, trace_file, cfg=None, timeout=900, env=None, heap="4g", libs=None):
    """Validates an ndjson trace with a trace specification (TraceIO conventions)."""
    e = {"TRACE": trace_file}
    if env:
        e.update(env)
    res = tlc(spec_dir, module, cfg=cfg, workers=1, timeout=timeout, env=e, coverage=False, deque=True,
              heap=heap, libs=libs)
    v = TraceVerdict()
    v.res = res
    if res.timed_out:
        raise ToolError(f"trace validation timed out: {module} {trace_file}")
    for line in res.prints:
        m = _re_acc.search(line)
        if m:
            v.accepted = True
            v.records = int(m.group(1))
        m = _re_rej.search(line)
        if m:
            v.pos = int(m.group(1))
            try:
                v.record = json.loads(m.group(2).encode().decode("unicode_escape"))
            except Exception:
                v.record = m.group(2)
    if res.violated and res.violated != "POSTCONDITION":
        # an invariant of the property layer failed on a state reached while explaining the trace
        v.accepted = False
        v.invariant = res.violated
    if not v.accepted and v.pos is None and v.invariant is None:
        raise ToolError(f"trace validation gave no verdict ({module}):\n" + res.output[-4000:])
    if v.accepted and (res.error or res.violated):
        v.accepted = False
    return v


def alt_block(alternatives):
    """Records of a group of alternatives (TraceIO.tla, 'alternatives'): the trace is accepted if the trace
    specification explains at least one of them.  alternatives: list of lists of records."""
    alternatives = [a for a in alternatives]
    if len(alternatives) == 1:
        return list(alternatives[0])
    sizes = [len(a) + 2 for a in alternatives]
    out = []
    for i, a in enumerate(alternatives):
        out.append({"k": "alt", "nx": sizes[i] if i < len(alternatives) - 1 else 0, "to": 0})
        out += a
        out.append({"k": "altjoin", "nx": 0, "to": 1 + sum(sizes[i + 1:])})
    return out


def linearizations(ops, limit=720):
    """All orders of `ops` that respect the recorded real-time order.  ops: list of (call_stamp, ret_stamp, record)
    with stamps from ONE global clock (scheduler step counter / SeqCst counter taken before the call and after the
    return); a precedes b iff a.ret < b.call (this includes the program order of a thread).  Returns a list of
    record lists; raises ToolError when there are more than `limit`."""
    n = len(ops)
    before = [[ops[a][1] < ops[b][0] for b in range(n)] for a in range(n)]
    res = []

    def rec(done, order):
        if len(res) > limit:
            raise ToolError(f"more than {limit} linearizations of {n} overlapping calls - make the concurrent program smaller")
        if len(order) == n:
            res.append([ops[i][2] for i in order])
            return
        for i in range(n):
            if i in done:
                continue
            if all((j in done) for j in range(n) if before[j][i]):
                rec(done | {i}, order + [i])

    rec(frozenset(), [])
    return res


def read_ndjson(path):
    out = []
    with open(path) as f:
        for line in f:
            line = line.strip()
            if line:
                out.append(json.loads(line))
    return out


def write_ndjson(path, recs):
    with open(path, "w") as f:
        for r in recs:
            f.write(json.dumps(r, separators=(",", ":")) + "\n")


def split_runs(recs):
    """Splits a concatenated trace at `reset` records."""
    runs, cur = [], []
    for r in recs:
        if r.get("k") == "reset" and cur:
            runs.append(cur)
            cur = []
        cur.append(r)
    if cur:
        runs.append(cur)
    return runs


def run_containing(recs, pos):
    """Returns the run (list of records, starting at its reset) that contains 1-based position pos."""
    start = 0
    for i, r in enumerate(recs[:pos]):
        if r.get("k") == "reset":
            start = i
    end = len(recs)
    for i in range(pos, len(recs)):
        if recs[i].get("k") == "reset":
            end = i
            break
    return recs[start:end], pos - start


# ---------------------------------------------------------------------------------------------
# evidence and verdict

def write_replay(ctx, v: Violation, idx):
    d = os.path.join(REPLAYS, ctx.pid)
    os.makedirs(d, exist_ok=True)
    p = os.path.join(d, f"{time.strftime('%Y%m%d-%H%M%S')}-{ctx.seed}-{idx}.json")
    body = {"property": ctx.pid, "tier": ctx.tier, "seed": ctx.seed, "what": v.what,
            "signature": v.signature}
    body.update(v.replay)
    with open(p, "w") as f:
        json.dump(body, f, indent=1, default=str)
    return p


def finish(ctx, level, extra_cov=None):
    cov = dict(ctx.coverage)
    cov.setdefault("samples", ctx.samples[:8] or ["(no sample recorded)"])
    if level == "model_checking":
        cov.setdefault("states", ctx.states)
        cov.setdefault("transitions", ctx.transitions)
        cov.setdefault("traces_validated_against_impl", ctx.traces_validated)
    if ctx.evaluations:
        cov.setdefault("evaluations", ctx.evaluations)
        cov.setdefault("distinct_nontrivial", ctx.distinct)
    if extra_cov:
        cov.update(extra_cov)
    if ctx.tlc_runs:
        cov["tlc_runs"] = ctx.tlc_runs
    if ctx.notes:
        cov["notes"] = ctx.notes
    if ctx.known_hits:
        cov["known_findings_reobserved"] = [s for s, _ in ctx.known_hits]
    ev = {"property_id": ctx.pid, "tier": ctx.tier, "seed": ctx.seed, "level": level,
          "coverage": cov, "assumptions": ctx.assumptions, "wall_s": round(ctx.elapsed(), 2),
          "violations": len(ctx.violations)}
    os.makedirs(EVIDENCE, exist_ok=True)
    with open(os.path.join(EVIDENCE, f"{ctx.pid}.json"), "w") as f:
        json.dump(ev, f, indent=1, default=str)
    for sig, what in ctx.known_hits:
        print(f"KNOWN-FINDING: property={ctx.pid} {what} [{sig}]")
    if ctx.violations:
        for i, v in enumerate(ctx.violations[:5]):
            p = write_replay(ctx, v, i)
            print(f"VIOLATION property={ctx.pid} replay={p}")
            log(f"  what: {v.what}")
        return 1
    print(f"OK property={ctx.pid} tier={ctx.tier} wall={ctx.elapsed():.1f}s")
    return 0


def record_tlc(ctx, name, res: TlcResult, count=True):
    ctx.tlc_runs.append({"model": name, "distinct_states": res.distinct, "states_generated": res.generated,
                         "depth": res.depth, "wall_s": round(res.wall, 1),
                         "result": "ok" if res.ok else (res.violated or res.error or "timeout")})
    if count:
        ctx.states += res.distinct
        ctx.transitions += res.generated


def check_action_coverage(res: TlcResult, required, what):
    """Vacuity guard: every listed action must have been taken at least once."""
    missing = [a for a in required if res.coverage.get(a, (0, 0))[1] == 0]
    if missing:
        raise ToolError(f"vacuous model run ({what}): actions never taken: {missing}")


# ---------------------------------------------------------------------------------------------
# batching: one JVM for many recorded files

def concat_traces(items, out_path, drop_kinds=("atom", "aux")):
    """items: list of (path, meta). Concatenates the ndjson files (dropping record kinds the API-level
    specs ignore) into out_path and returns [(first_line, last_line, path, meta)] (1-based)."""
    ranges, n = [], 0
    with open(out_path, "w") as out:
        for path, meta in items:
            first = n + 1
            with open(path) as f:
                for line in f:
                    line = line.strip()
                    if not line:
                        continue
                    if drop_kinds:
                        k = json.loads(line).get("k")
                        if k in drop_kinds:
                            continue
                    out.write(line + "\n")
                    n += 1
            ranges.append((first, n, path, meta))
    return ranges


def locate(ranges, pos):
    for first, last, path, meta in ranges:
        if first <= pos <= last:
            return path, meta, pos - first + 1
    return None, None, pos


class BatchValidator:
    """Collects recorded files and validates them with ONE trace-specification run.
    on_reject(meta, verdict, run_records, rel_pos) must call ctx.report(...)."""

    def __init__(self, ctx, spec_dir, module, on_reject, libs=None, name=None):
        self.ctx, self.spec_dir, self.module, self.on_reject, self.libs = ctx, spec_dir, module, on_reject, libs
        self.items = []
        self.name = name or module

    def add(self, path, meta, executions=1):
        self.items.append((path, (meta, executions)))

    def run(self, timeout=2400):
        if not self.items:
            return True
        allp = self.ctx.path("traces", f"all-{self.name}.ndjson")
        ranges = concat_traces(self.items, allp)
        v = tlc_trace(self.spec_dir, self.module, allp, timeout=timeout, libs=self.libs)
        record_tlc(self.ctx, f"{self.module}[{len(self.items)} recorded files]", v.res)
        if v.accepted:
            self.ctx.traces_validated += sum(m[1] for _, m in self.items)
            return True
        _, meta, _ = locate(ranges, v.pos or 1)
        recs = read_ndjson(allp)
        run, rel = run_containing(recs, v.pos) if v.pos else (recs[:50], 0)
        self.on_reject(meta[0] if meta else None, v, run, rel)
        return False
