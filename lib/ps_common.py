"""Shared machinery of the publish-subscribe checks C01 / C02 / C08 (spec/api/PubSub*.tla,
harness/drivers/pubsub).  DESIGN.md 2.2 round trip:

   TLC (model check, trap witnesses, -simulate)  ->  drv-pubsub on the real API  ->  TLC (PubSubTrace)
"""
import json
import os
import random
import re

import vp

DRIVER = "drv-pubsub"

INV = {
    "C01": ["TypeOK", "Order", "LossOverflow", "LossNoOverflow", "Recipients", "FaultyPairQuiet"],
    "C02": ["TypeOK", "RefExact", "FreeIffZero", "ChunkUnique", "NoLeak", "Conservation", "CqFits"],
    "C08": ["TypeOK", "ChunksSuffice", "UsedBound", "CqFits", "LoanInside", "LimitsRespected"],
}
PROPS = {"C01": ["HasSamplesIff"], "C02": [], "C08": ["BeyondUnchanged"]}
# invariants evaluated on every state of an explained real trace (NoLeak/Conservation need the chunk
# indices to be dense, which only the model guarantees; on traces their content is carried by the probe)
TRACE_INV = {
    "C01": ["TypeOK", "Order", "LossOverflow", "LossNoOverflow", "Recipients", "FaultyPairQuiet"],
    "C02": ["TypeOK", "RefExact", "FreeIffZero", "ChunkUnique"],
    "C08": ["TypeOK", "ChunksSuffice", "UsedBound", "LoanInside", "LimitsRespected"],
}
INV_OWNER = {i: pid for pid, l in INV.items() for i in l if i != "TypeOK"}
INV_OWNER["CqFits"] = "C08"     # listed by C02 as well ("no leak after": a release that fails leaks the chunk)
ACTIONS = ["ACreatePublisher", "ADropPublisher", "ACreateSubscriber", "ADropSubscriber", "ALoan", "ASend",
           "ADropLoan", "AReceive", "ADropSample", "AUpdatePub", "AUpdateSub", "AHasSamples", "AProbeLoans"]
FAULT_ACTIONS = ["ABreakSeg", "AOccupy"]
SPLIT_ACTIONS = ["ASendBegin", "ADeliver", "ABpCall", "ABpRet", "ASendEnd"]

# which property an unexplainable event of a given kind belongs to
EVENT_OWNER = {
    "recv": {"C01", "C08"}, "send": {"C01"}, "send_end": {"C01"}, "bp": {"C01"}, "has": {"C01"},
    "update_sub": {"C01"}, "update_pub": {"C01", "C02"},
    "loan": {"C02", "C08"}, "probe": {"C02", "C08"},
    "create_pub": {"C08"}, "create_sub": {"C08"},
    "panic": {"C01", "C02", "C08"},
}


def event_owner(e):
    """which property an unexplainable event belongs to"""
    o = EVENT_OWNER.get(e.get("a"))
    if o is not None and e.get("a") == "recv" and e.get("r") == "ExceedsMaxBorrows":
        # the code still counts a reference that is gone according to the specification (a released
        # sample whose release failed): a leaked borrow slot / chunk - C02 "no leak after" as well
        o = o | {"C02"}
    return o


def qos(maxpubs=1, maxsubs=2, bufmax=2, hist=1, borrow=1, loan=1, overflow=True, strategy="discard",
        payload="u64", variant="ipc", expbuf=64, align=8):
    """expbuf = defaults.publish_subscribe.subscriber_expired_connection_buffer of the node configuration,
    align = payload alignment override of the service (8 = none)"""
    return dict(maxpubs=maxpubs, maxsubs=maxsubs, bufmax=bufmax, hist=hist, borrow=borrow, loan=loan,
                overflow=1 if overflow else 0, strategy=strategy, payload=payload, variant=variant,
                expbuf=expbuf, align=align)


def qos_tla(q):
    return ("[maxpubs |-> %d, maxsubs |-> %d, bufmax |-> %d, hist |-> %d, borrow |-> %d, loan |-> %d, "
            "overflow |-> %s, strategy |-> \"%s\", expbuf |-> %d]"
            % (q["maxpubs"], q["maxsubs"], q["bufmax"], q["hist"], q["borrow"], q["loan"],
               "TRUE" if q["overflow"] else "FALSE", q["strategy"], q.get("expbuf", 64)))


def setstr(xs):
    return "{" + ", ".join(str(x) for x in xs) + "}"


def qos_grid():
    """buffer 1..3 x history 0..2 x borrow 1..2 x loans 1..2 x overflow x strategy x payload x variant
    (history <= buffer is required by the service builder; the history REQUEST 0..2 and the per-subscriber
    buffer are chosen per subscriber by the programs)."""
    grid = []
    for bufmax in (1, 2, 3):
        for hist in (0, 1, 2):
            if hist > bufmax:
                continue
            for borrow in (1, 2):
                for loan in (1, 2):
                    for overflow in (1, 0):
                        for strategy in ("discard", "retry_fail", "retry_discard"):
                            if overflow and strategy != "discard":
                                continue        # with safe overflow the strategy is never consulted
                            for payload in ("u64", "slice"):
                                for variant in ("ipc", "local"):
                                    grid.append(dict(bufmax=bufmax, hist=hist, borrow=borrow, loan=loan,
                                                     overflow=overflow, strategy=strategy, payload=payload,
                                                     variant=variant))
    return grid


def grid_jobs(seed, count, steps, full=False):
    """Driver-generated runs over the QoS grid: `count` cells sampled by seed (quick) or the whole grid."""
    rnd = random.Random(seed * 7919 + 13)
    grid = qos_grid()
    cells = grid if full else rnd.sample(grid, min(count, len(grid)))
    jobs = []
    for i, c in enumerate(cells):
        q = dict(c)
        q["maxpubs"] = rnd.choice((1, 2, 2, 3))
        q["maxsubs"] = rnd.choice((1, 2, 2, 3))
        # further dimensions, sampled per job: expired-connection buffer (small values only matter with several
        # publishers), payload alignment, connection faults (exercised with the default large expired buffer)
        q["expbuf"] = rnd.choice((64, 64, 1, 2)) if q["maxpubs"] > 1 else 64
        q["align"] = rnd.choice((8, 8, 16, 64, 256))
        faults = 1 if (q["expbuf"] == 64 and i % 3 == 1) else 0
        jobs.append({"cfg": q, "gen": {"seed": seed * 100003 + i, "steps": steps, "faults": faults}})
    return jobs


# ---------------------------------------------------------------------------------------------
# parameter extraction (DESIGN.md 3.3): number of chunks the running code allocates, capacity of the
# completion queue the running code creates

def read_params(ctx, qs, tag="params"):
    """-> (number_of_samples per QoS, completion queue capacity of a connection with buffer bufmax per QoS)"""
    d = ctx.path("params", "x")[:-2]
    jp = os.path.join(d, f"{tag}.json")
    with open(jp, "w") as f:
        json.dump([{"cfg": q} for q in qs], f)
    _, so, _ = vp.run_driver(DRIVER, ["params", "--work", d, "--jobs", jp], timeout=300)
    j = vp.last_json_line(so)
    ns, cq = j["number_of_samples"], j["completion_queue_capacity"]
    if len(ns) != len(qs) or len(cq) != len(qs):
        raise vp.ToolError("params: wrong number of answers")
    return ns, cq


def read_chunks(ctx, qs, tag="params"):
    return read_params(ctx, qs, tag)[0]


# ---------------------------------------------------------------------------------------------
# TLC instances

def inst_opts(faults=False, split=False, conc=False, degs=("warn",), cqextra=1):
    """switches of a model checking instance: fault actions, split form of send, subscriber calls concurrent
    to a send, degradation modes tried by the create actions, completion queue capacity - (buffer + borrow)"""
    return dict(faults=faults, split=split, conc=conc, degs=tuple(degs), cqextra=cqextra)


def write_instance(ctx, name, base, q, pubs, subs, bufs, reqs, nchunks, maxids, body="", cfg_extra="",
                   spec="MCSpec", genlen=None, opts=None):
    o = opts or inst_opts()
    d = ctx.path("mc", name, "x")[:-2]
    degs = "{" + ", ".join(f'"{x}"' for x in o["degs"]) + "}"
    with open(os.path.join(d, f"{name}.tla"), "w") as f:
        f.write(f"---- MODULE {name} ----\nEXTENDS {base}\nQV == {qos_tla(q)}\nDegV == {degs}\nCqV == {o['cqextra']}\n"
                f"{body}\n====\n")
    with open(os.path.join(d, f"{name}.cfg"), "w") as f:
        f.write(f"SPECIFICATION {spec}\nCONSTANTS\n PubIds = {setstr(pubs)}\n SubIds = {setstr(subs)}\n Q <- QV\n"
                f" BufChoices = {setstr(bufs)}\n ReqChoices = {setstr(reqs)}\n NChunks = {nchunks}\n MaxIds = {maxids}\n"
                " AllowKnown <- FalseValue\n DegChoices <- DegV\n CqExtra <- CqV\n"
                + (" FaultsOn <- TrueValue\n" if o["faults"] else "")
                + (" SplitSendOn <- TrueValue\n" if o["split"] else "")
                + (" ConcurrentSub <- TrueValue\n" if o["conc"] else "")
                + (f" GenLen = {genlen}\n" if genlen is not None else "")
                + "CHECK_DEADLOCK FALSE\n" + cfg_extra)
    return d


def model_check(ctx, pid, name, q, pubs, subs, bufs, reqs, maxids, nchunks, view=None, timeout=900, workers=6,
                count=True, opts=None):
    view = view or "NoOutView"
    """Design check of PubSub.tla on one small instance with the invariants of property `pid`;
    `nchunks` (and opts.cqextra) come from the running code.  Returns the TlcResult (violations are NOT raised here)."""
    extra = "INVARIANTS " + " ".join(INV[pid]) + "\n"
    if PROPS[pid]:
        extra += "PROPERTIES " + " ".join(PROPS[pid]) + "\n"
    if view:
        extra += f"VIEW {view}\n"
    d = write_instance(ctx, name, "PubSub", q, pubs, subs, bufs, reqs, nchunks, maxids, cfg_extra=extra, opts=opts)
    res = vp.tlc(d, name, workers=workers, timeout=timeout, libs=["api"])
    o = opts or inst_opts()
    sw = "".join(c for c, k in (("F", "faults"), ("S", "split"), ("C", "conc")) if o[k])
    vp.record_tlc(ctx, f"PubSub[{name}: pubs={len(pubs)} subs={len(subs)} {short(q)} N={nchunks} ids<={maxids}"
                       f"{' view=' + view if view else ''}{' switches=' + sw if sw else ''} cq+{o['cqextra']}]", res, count=count)
    if res.timed_out:
        raise vp.ToolError(f"TLC timed out on {name}")
    return res


_re_cov2 = re.compile(r"^<(\w+) line \d+, col \d+ to line \d+, col \d+ of module \w+(?: \([\d ]+\))?>: (\d+):(\d+)")


def action_coverage(res):
    """TLC's per-action coverage (distinct:total); TLC names an action either by the wrapper (ASend) or by
    the operator it applies (Send) - both are folded to the wrapper name."""
    cov = {}
    for line in res.output.splitlines():
        m = _re_cov2.match(line)
        if m:
            n = m.group(1)
            n = n if n.startswith("A") and n[1:2].isupper() else "A" + n
            a, b = cov.get(n, (0, 0))
            cov[n] = (a + int(m.group(2)), b + int(m.group(3)))
    return cov


def check_coverage(res, what, required=None):
    cov = action_coverage(res)
    alias = {"AUpdatePub": "AUpdatePub", "ADropPublisher": "ADropPublisher"}
    missing = [a for a in (required or ACTIONS) if cov.get(alias.get(a, a), (0, 0))[1] == 0]
    if missing:
        raise vp.ToolError(f"vacuous model run ({what}): actions never taken: {missing} (coverage: {cov})")
    return cov


def short(q):
    return (f"P{q['maxpubs']}S{q['maxsubs']}B{q['bufmax']}H{q['hist']}b{q['borrow']}l{q['loan']}"
            f"{'o' if q['overflow'] else 'n'}{q['strategy'][0] if q['strategy'] == 'discard' else q['strategy'][6]}"
            + (f"x{q['expbuf']}" if q.get('expbuf', 64) != 64 else "") + (f"a{q['align']}" if q.get('align', 8) != 8 else ""))


def mc_counterexample(res):
    """Compact rendering of a TLC counterexample: the sequence of `out` records."""
    steps = []
    for hdr, lines in res.cex:
        txt = " ".join(l.strip() for l in lines)
        m = re.search(r"out = (\[[^\]]*\])", txt)
        steps.append({"action": hdr.split(" line ")[0], "out": m.group(1) if m else None})
    return steps


def report_mc_violation(ctx, pid, name, q, nchunks, res, cqx=1):
    inv = res.violated
    owner = INV_OWNER.get(inv, pid)
    ctx.report(vp.Violation(
        f"TLC refutes {inv} of PubSub.tla instantiated with the number of chunks the code allocates "
        f"(N={nchunks} for {short(q)}) and the completion queue capacity it creates (buffer + max borrow + {cqx}) "
        f"on instance {name}",
        replay={"kind": "model", "instance": name, "qos": q, "number_of_samples": nchunks,
                "completion_queue_capacity_minus_buffer_minus_borrow": cqx, "invariant": inv,
                "owner": owner, "counterexample": mc_counterexample(res),
                "cmd": f"work/{ctx.pid}-{ctx.tier}/mc/{name}: tlc {name}.tla"},
        signature=f"mc:{inv}:{short(q)}"))


_re_alias = re.compile(r'o = "(.*)"\s*$')


def witness(ctx, name, trap, q, pubs, subs, bufs, reqs, maxids, nchunks, view=None, timeout=300, opts=None):
    """Trap invariant = negated target state; returns the program (list of out records) reaching it."""
    extra = f"INVARIANTS Trap_{trap}\nALIAS TraceAlias\n" + (f"VIEW {view}\n" if view else "")
    d = write_instance(ctx, name, "PubSubWitness", q, pubs, subs, bufs, reqs, nchunks, maxids, cfg_extra=extra, opts=opts)
    res = vp.tlc(d, name, workers=6, timeout=timeout, libs=["api"], coverage=False)
    vp.record_tlc(ctx, f"witness {trap} [{short(q)}]", res, count=False)
    if res.timed_out:
        raise vp.ToolError(f"witness search timed out: {name}")
    if res.violated != f"Trap_{trap}":
        if res.ok:
            ctx.note(f"witness target {trap} is unreachable in instance {name}")
            return None
        raise vp.ToolError(f"witness run {name} failed: {res.violated} {res.error}\n{res.output[-2000:]}")
    prog = []
    for line in res.output.splitlines():
        m = _re_alias.search(line.strip())
        if m:
            rec = json.loads(json.loads('"' + m.group(1) + '"'))
            if rec.get("a") != "none":
                prog.append(rec)
    if not prog:
        raise vp.ToolError(f"witness run {name}: no behaviour in TLC output")
    return fold_nested(prog)


def fold_nested(prog):
    """A behaviour of the specification -> a driver program.  The sub-steps of a split send
    (send_begin, deliver*, bp, <calls made while the handler runs>, bp_ret, ..., send_end) become ONE send
    action whose script tells the driver's unable-to-deliver handler which calls to make and what to answer
    at its k-th invocation.  (The real code may invoke the handler for other connections / in another order
    than the behaviour assumed: a program is only an input, the recorded trace is what gets validated.)"""
    out, cur, entry = [], None, None
    for r in prog:
        a = r.get("a")
        if a == "send_begin":
            cur, entry = {"a": "send", "p": r["p"], "id": r["id"], "nest": []}, None
        elif cur is None:
            out.append(r)
        elif a == "deliver":
            pass
        elif a == "bp":
            entry = {"ops": [], "act": "discard"}
            cur["nest"].append(entry)
        elif a == "bp_ret":
            if entry is not None:
                entry["act"] = r.get("act", "discard")
            entry = None
        elif a == "send_end":
            out.append(cur)
            cur, entry = None, None
        elif entry is not None:
            entry["ops"].append(r)
        else:
            # a call between two sub-steps outside of a handler (only instances with ConcurrentSub): the
            # sequential driver cannot place it there - it is executed right after the send
            out.append(cur)
            out.append(r)
            cur = None
    if cur is not None:
        out.append(cur)
    return out


def simulate(ctx, name, q, pubs, subs, bufs, reqs, maxids, nchunks, num, depth, seed, timeout=300, opts=None):
    """tlc -simulate: `num` random behaviours of `depth` API calls each."""
    body = ""
    d = write_instance(ctx, name, "PubSubGen", q, pubs, subs, bufs, reqs, nchunks, maxids, body=body,
                       cfg_extra="INVARIANTS Emit\n", spec="GenSpec", genlen=depth, opts=opts)
    res = vp.tlc(d, name, workers=1, timeout=timeout, libs=["api"], coverage=False,
                 simulate=f"num={num}", extra=["-depth", str(depth + 1), "-seed", str(seed)])
    vp.record_tlc(ctx, f"simulate [{short(q)} num={num} depth={depth}]", res, count=False)
    if res.timed_out:
        raise vp.ToolError(f"simulation {name} timed out")
    progs, seen = [], set()
    for line in res.prints:
        m = re.match(r'<<"BEHAVIOUR", "(.*)">>\s*$', line)
        if m:
            prog = json.loads(json.loads('"' + m.group(1) + '"'))
            key = json.dumps(prog[:-1], sort_keys=True)     # the invariant fires for every last step of a walk
            if key not in seen:
                seen.add(key)
                progs.append(fold_nested(prog))
    if not progs:
        raise vp.ToolError(f"simulation {name} produced no behaviour:\n{res.output[-2000:]}")
    return progs[:num]


WITNESS_FILE = os.path.join(vp.SPEC, "api", "PubSubWitnesses.json")


def witness_plan():
    """target -> (qos, publisher instances, subscriber instances, buffer choices, request choices, max loans)"""
    Q = qos
    seq = Q(maxpubs=1, maxsubs=1, bufmax=2, hist=1, borrow=2, loan=2, overflow=True)
    return {
        # C01
        "OverflowPartial": (Q(maxpubs=1, maxsubs=1, bufmax=1, hist=0, borrow=2, loan=1, overflow=True), [1], [1], [1], [0], 4),
        "LateJoiner": (Q(maxpubs=1, maxsubs=1, bufmax=3, hist=2, borrow=3, loan=1, overflow=True), [1], [1], [3], [2], 3),
        "PubDroppedInFlight": (Q(maxpubs=1, maxsubs=1, bufmax=2, hist=1, borrow=2, loan=2, overflow=True), [1], [1], [2], [0], 3),
        "ReconnectSub": (seq, [1], [1, 2], [2], [1], 3),
        "ReconnectPub": (seq, [1, 2], [1], [2], [0], 3),
        "TwoPubs": (Q(maxpubs=2, maxsubs=1, bufmax=2, hist=0, borrow=1, loan=1, overflow=True), [1, 2], [1], [2], [0], 4),
        "SkipThenReceive": (Q(maxpubs=1, maxsubs=1, bufmax=1, hist=1, borrow=2, loan=2, overflow=False, strategy="retry_fail"),
                            [1], [1], [1], [0], 3),
        # C02 / C08
        "Saturated": (Q(maxpubs=1, maxsubs=2, bufmax=1, hist=1, borrow=1, loan=1, overflow=True), [1], [1, 2], [1], [0, 1], 4),
        "StaleOwner": (Q(maxpubs=1, maxsubs=1, bufmax=2, hist=1, borrow=1, loan=1, overflow=True), [1], [1], [2], [0], 3),
        "HistoryEvictHeld": (Q(maxpubs=1, maxsubs=1, bufmax=2, hist=1, borrow=1, loan=1, overflow=True), [1], [1], [2], [1], 3),
        # the receiver returns everything it owns between the sender's reclaim and its push (split send)
        "CqFull": (Q(maxpubs=1, maxsubs=1, bufmax=1, hist=0, borrow=1, loan=1, overflow=False, strategy="retry_discard"),
                   [1], [1], [1], [0], 3, inst_opts(split=True)),
        # exact worst case of the data segment: every chunk has a holder and all loans are out
        "ChunksExhausted": (Q(maxpubs=1, maxsubs=1, bufmax=1, hist=1, borrow=1, loan=1, overflow=False), [1], [1], [1], [0], 4),
        "ChunksExhausted2": (Q(maxpubs=1, maxsubs=2, bufmax=1, hist=1, borrow=1, loan=1, overflow=False), [1], [1, 2], [1], [0], 6),
        # expired-connection buffer (2) overflows while samples of vanished publishers are held
        "ExpiredDiscard": (Q(maxpubs=2, maxsubs=1, bufmax=2, hist=0, borrow=2, loan=1, overflow=True, expbuf=2),
                           [1, 2, 3], [1], [2], [0], 3),
    }


TRAP_OF = {"ChunksExhausted2": "ChunksExhausted"}
ALIGNED_TARGETS = ("ChunksExhausted", "ChunksExhausted2", "Saturated")
HEAVY_TARGETS = ("ExpiredDiscard", "ChunksExhausted2", "Saturated", "TwoPubs")     # > 30 s of TLC each


def witnesses(ctx, targets, regenerate):
    """Witness programs for `targets`; those in `regenerate` are produced now by TLC (trap invariants), the
    others come from the committed cache spec/api/PubSubWitnesses.json (itself written by `regen_witnesses`).
    A witness is an INPUT program; its verdict comes from validating the recorded trace."""
    plan = witness_plan()
    cache = {}
    if os.path.exists(WITNESS_FILE):
        cache = json.load(open(WITNESS_FILE))
    todo = [t for t in targets if t in regenerate or t not in cache]
    out = {}
    if todo:
        ns = read_chunks(ctx, [plan[t][0] for t in todo], "wit")
        for t, n in zip(todo, ns):
            q, pubs, subs, bufs, reqs, maxids = plan[t][:6]
            opts = plan[t][6] if len(plan[t]) > 6 else None
            # targets over the ghost history need it in the fingerprint, the others only the system state
            view = "SysView" if t in ("Saturated", "StaleOwner", "CqFull", "ChunksExhausted", "ChunksExhausted2") else "NoOutView"
            prog = witness(ctx, f"W_{t}", TRAP_OF.get(t, t), q, pubs, subs, bufs, reqs, maxids, n, view=view, timeout=900,
                           opts=opts)
            if prog is None:
                raise vp.ToolError(f"witness target {t} is unreachable")
            out[t] = prog
            if t in cache and [strip(e) for e in cache[t]] != [strip(e) for e in prog]:
                pass    # BFS with several workers may return another shortest behaviour: equally valid input
    for t in targets:
        if t not in out:
            out[t] = cache[t]
    return out


def strip(e):
    return {k: v for k, v in e.items() if k in ("a", "p", "s", "id", "buf", "req", "deg", "nest")}


# ---------------------------------------------------------------------------------------------
# execution and validation

def execute(ctx, jobs, tag):
    d = ctx.path("exec", "x")[:-2]
    jp = os.path.join(d, f"{tag}.jobs.json")
    out = os.path.join(d, f"{tag}.ndjson")
    with open(jp, "w") as f:
        json.dump(jobs, f)
    _, so, _ = vp.run_driver(DRIVER, ["exec", "--work", d, "--jobs", jp, "--out", out], timeout=1800)
    return out, vp.last_json_line(so)


def trace_module(ctx, pid):
    d = ctx.path("tr", "x")[:-2]
    name = f"PubSubTrace_{pid}"
    base = open(os.path.join(vp.SPEC, "api", "PubSubTrace.cfg")).read()
    base = base[:base.index("INVARIANTS")]
    with open(os.path.join(d, f"{name}.tla"), "w") as f:
        f.write(f"---- MODULE {name} ----\nEXTENDS PubSubTrace\n====\n")
    with open(os.path.join(d, f"{name}.cfg"), "w") as f:
        f.write(base + "INVARIANTS " + " ".join(TRACE_INV[pid]) + "\n")
    return d, name


KD_SIGNATURE = {
    "sample-lost": ("C01", "pubsub:sample-lost:publisher-dropped-before-subscriber-attached",
                    "samples are lost: send counted a subscriber whose receiver side was not yet attached, the publisher "
                    "was dropped before that subscriber's next receive/has_samples/update_connections, and the samples "
                    "waiting for it were discarded with the connection"),
    "borrow-per-connection": ("C08", "pubsub:max-borrowed-per-connection-not-per-subscriber",
                              "a receive succeeds although the subscriber already holds subscriber_max_borrowed_samples "
                              "samples (the limit is enforced per publisher connection, not per subscriber)"),
    "expired-buffer-panic": ("C08", "pubsub:expired-connection-buffer-panic-after-over-borrow",
                             "the process aborts (fatal_panic 'Expired connection buffer exceeded ... still borrowed') in a "
                             "connection update of a subscriber that holds samples of more vanished publishers than its "
                             "expired-connection buffer has entries - reachable because subscriber_max_borrowed_samples is "
                             "enforced per connection"),
}
_re_kdpath = re.compile(r'<<"KD_PATH", (\d+), \{([^}]*)\}>>')


def known_defect_tags(output, items):
    """Per run: the known-defect tags that EVERY explanation of the run carries (an explanation without a
    tag means the run is explainable by the documented behaviour)."""
    ends, acc = {}, 0
    for i, (run, _) in enumerate(items):
        for k, r in enumerate(run):
            if r.get("k") == "end":
                ends[acc + k + 1] = i
        acc += len(run)
    per_run = {}
    for m in _re_kdpath.finditer(output):
        i = ends.get(int(m.group(1)))
        if i is None:
            continue
        tags = {t.strip().strip('"') for t in m.group(2).split(",") if t.strip()}
        per_run[i] = tags if i not in per_run else (per_run[i] & tags)
    return {i: t for i, t in per_run.items() if t}


def describe(e):
    keys = [k for k in ("p", "s", "id", "buf", "req", "deg", "ri", "act", "c", "n", "blk", "cnt", "cs", "v", "cok", "r", "msg")
            if k in e]
    return e.get("a", e.get("k")) + "(" + ", ".join(f"{k}={e[k]}" for k in keys) + ")" + \
        (f" BAD={e['bad']}" if e.get("bad") else "")


def validate(ctx, pid, trace, jobs, label, max_rounds=6):
    """Validates a recorded trace against PubSubTrace with the invariants of `pid`.
    An unexplainable event that belongs to this property is reported (V1); one that belongs to
    another pub-sub property only truncates that run (the other check reports it).
    Returns the number of runs that were explained completely."""
    d, name = trace_module(ctx, pid)
    runs = vp.split_runs(vp.read_ndjson(trace))
    if len(runs) != len(jobs):
        raise vp.ToolError(f"{label}: {len(runs)} recorded runs for {len(jobs)} jobs")
    items = list(zip(runs, jobs))
    explained, rounds = 0, 0
    tagged = {}                 # tag -> list of (run, job), each run once
    seen_runs = set()
    while items:
        cur = os.path.join(os.path.dirname(trace), f"{label}.{pid}.cur.ndjson")
        vp.write_ndjson(cur, [r for run, _ in items for r in run])
        v = vp.tlc_trace(d, name, cur, libs=["api"], timeout=1800)
        vp.record_tlc(ctx, f"PubSubTrace[{label}: {sum(len(r) for r, _ in items)} records, {len(items)} runs]",
                      v.res, count=False)
        for i, tags in known_defect_tags(v.res.output, items).items():
            run_i, job_i = items[i]
            if id(run_i) not in seen_runs:
                seen_runs.add(id(run_i))
                for t in tags:
                    tagged.setdefault(t, []).append((run_i, job_i))
        if v.accepted:
            explained += len(items)
            break
        rounds += 1
        # position (1-based) of the record that was not explained / after which an invariant failed
        pos = v.pos if v.pos is not None else max(1, len(v.res.cex) - 1)
        idx, acc = len(items) - 1, 0
        for i, (run, _) in enumerate(items):
            if acc + len(run) >= pos:
                idx = i
                break
            acc += len(run)
        run, job = items[idx]
        rel = min(max(pos - acc, 1), len(run))
        bad = run[rel - 1]
        if v.invariant:
            owner = {INV_OWNER.get(v.invariant, pid)}
            what = f"invariant {v.invariant} fails on the state reached after {describe(bad)}"
        elif bad.get("bad"):
            owner = {"C02"}
            what = (f"bytes of held sample(s) {bad['bad']} changed or are no longer mapped (canary mismatch) after "
                    f"{describe(bad)}")
        elif bad.get("a") == "recv" and bad.get("cok") == 0:
            owner = {"C01", "C02"}
            what = f"received payload is not byte-identical to what was written: {describe(bad)}"
        elif any(r.get("k") == "alt" for r in run[:rel]):
            # inside / behind the alternatives of a concurrent execution: TLC reports the furthest record reached
            # by ANY linearization
            owner = event_owner(bad) or {"C01", "C02", "C08"}
            what = (f"concurrent execution (publisher thread || subscriber thread): whatever linearization of the "
                    f"overlapping calls is assumed, the specification cannot explain the history (furthest record reached: "
                    f"{describe(bad)})")
        else:
            owner = event_owner(bad)
            what = f"the specification cannot explain {describe(bad)}"
            if owner is None:
                raise vp.ToolError(f"{label}: structural event not explainable (harness/spec bug?): {bad} at record "
                                   f"{pos}\n" + "\n".join(describe(r) for r in run[max(0, rel - 15):rel]))
        if pid in owner:
            ctx.report(vp.Violation(
                f"{label}: {what}; QoS {short_reset(run[0])}",
                replay={"kind": "trace", "qos": {k: run[0].get(k) for k in run[0] if k != "k"},
                        "history": [describe(r) if r.get("k") == "op" else r.get("k") for r in run[1:rel]][-300:],
                        "first_unexplained": bad,
                        "invariant": v.invariant, "job": job,
                        "cmd": "drv-pubsub exec --work <dir> --jobs <file containing [job]> --out t.ndjson ; "
                               "TRACE=t.ndjson tlc spec/api/PubSubTrace"},
                signature=f"trace:{bad.get('a')}:{bad.get('r')}:{v.invariant}"))
        else:
            ctx.note(f"{label}: run truncated at an event owned by {sorted(owner)}: {what}")
        explained += idx
        items = items[idx + 1:]
        if rounds >= max_rounds:
            ctx.note(f"{label}: validation stopped after {max_rounds} rejected runs ({len(items)} runs not validated)")
            break
    ctx.traces_validated += explained
    # known-defect shapes: explained only through a tagged alternative of the specification
    for tag, lst in sorted(tagged.items()):
        owner, sig, text = KD_SIGNATURE[tag]
        ctx.coverage.setdefault("known_defect_shapes", {})[tag] = ctx.coverage.get("known_defect_shapes", {}).get(tag, 0) + len(lst)
        if owner != pid:
            continue
        run, job = min(lst, key=lambda x: len(x[0]))
        ctx.report(vp.Violation(
            f"{label}: {text} - {len(lst)} run(s), shortest: QoS {short_reset(run[0])}",
            replay={"kind": "trace", "known_defect_shape": tag, "runs_affected": len(lst),
                    "qos": {k: run[0].get(k) for k in run[0] if k != "k"},
                    "history": [describe(r) for r in run[1:]][:400], "job": job,
                    "cmd": "drv-pubsub exec --work <dir> --jobs <file containing [job]> --out t.ndjson ; "
                           "TRACE=t.ndjson tlc spec/api/PubSubTrace (KD_PATH lines = tags of every explanation)"},
            signature=sig))
    return explained


def short_reset(r):
    return short({**r, "overflow": r.get("overflow", 0)}) + f"/{r.get('payload')}/{r.get('variant')}"


def require_counts(summary, needed, what):
    """Vacuity in the trace direction: every listed event kind must have been exercised."""
    counts = summary.get("counts", {})
    missing = [k for k in needed if not any(c == k or c.startswith(k + ":") for c in counts)]
    if missing:
        raise vp.ToolError(f"vacuous execution ({what}): never exercised: {missing}; counts={counts}")


def cleanup_shm():
    try:
        for f in os.listdir("/dev/shm"):
            if f.startswith("vps"):
                pid = re.match(r"vps(\d+)_", f)
                if pid and not os.path.exists(f"/proc/{pid.group(1)}"):
                    try:
                        os.remove(os.path.join("/dev/shm", f))
                    except OSError:
                        pass
    except OSError:
        pass


# ---------------------------------------------------------------------------------------------
# program tails appended to witnesses: within-limit operations that must still succeed

def saturation_tail(q, pubs=(1,), subs=(1, 2)):
    """At the saturated state: one more of everything is rejected, free one unit, retry succeeds."""
    t = []
    for p in pubs:
        t += [{"a": "probe", "p": p}, {"a": "loan", "p": p}]          # beyond: ExceedsMaxLoans
    for s in subs:
        t += [{"a": "recv", "s": s}]                                   # beyond: ExceedsMaxBorrows
    for s in subs:
        t += [{"a": "drop_sample", "s": s, "id": 0}, {"a": "recv", "s": s}, {"a": "has", "s": s}]
    for p in pubs:
        t += [{"a": "send", "p": p, "id": 0}, {"a": "loan", "p": p}, {"a": "probe", "p": p},
              {"a": "send", "p": p, "id": 0}, {"a": "probe", "p": p}]
    for s in subs:
        t += [{"a": "drop_sample", "s": s, "id": 0}, {"a": "recv", "s": s}]
    for p in pubs:
        t += [{"a": "loan", "p": p}, {"a": "probe", "p": p}]
    return t


def mc_phase(ctx, pid, insts, code_dependent):
    """Design check of PubSub.tla on `insts` = [(name, qos, pubs, subs, bufs, reqs, maxids, view[, opts])].
    `code_dependent`: a refutation is a verdict about the code (the instance carries the number of
    chunks and the completion queue capacity read from the running code, V2); otherwise it is a defect of
    the specification (tool error)."""
    # one parameter probe per (instance, buffer choice): the completion queue capacity depends on the buffer size
    probes = []
    for i in insts:
        for b in i[4]:
            # (the service builder wants history <= buffer; the queue capacity does not depend on the history)
            probes.append(dict(i[1], bufmax=b, hist=min(i[1]["hist"], b)) if b <= i[1]["bufmax"] else None)
    real = [p for p in probes if p is not None]
    ns_all, cq_all = read_params(ctx, [i[1] for i in insts] + real, "mc")
    ns = ns_all[:len(insts)]
    cqs = iter(cq_all[len(insts):])
    extras, k = [], 0
    for i in insts:
        ex = []
        for b in i[4]:
            if probes[k] is not None:
                ex.append(next(cqs) - b - i[1]["borrow"])
            k += 1
        extras.append(min(ex) if ex else 1)
    for inst, n, cqx in zip(insts, ns, extras):
        name, q, pubs, subs, bufs, reqs, maxids, view = inst[:8]
        opts = dict(inst[8]) if len(inst) > 8 and inst[8] else inst_opts()
        opts["cqextra"] = cqx
        res = model_check(ctx, pid, name, q, pubs, subs, bufs, reqs, maxids, n, view=view,
                          timeout=1500 if ctx.quick else 3600, opts=opts)
        if res.violated:
            if code_dependent and INV_OWNER.get(res.violated) in ("C02", "C08"):
                report_mc_violation(ctx, pid, name, q, n, res, cqx)
                continue
            raise vp.ToolError(f"PubSub.tla violates {res.violated} on {name}:\n{res.output[-3000:]}")
        if not res.ok:
            raise vp.ToolError(f"TLC failed on {name}: {res.error}\n{res.output[-3000:]}")
        impossible = {"ASend", "ADropLoan", "ADropSample"} if q["loan"] == 0 else set()
        need = ACTIONS + (FAULT_ACTIONS if opts["faults"] else []) + (SPLIT_ACTIONS if opts["split"] else [])
        check_coverage(res, name, [a for a in need if a not in impossible])
    ctx.coverage["number_of_samples_read_from_code"] = {i[0]: n for i, n in zip(insts, ns)}
    ctx.coverage["completion_queue_extra_read_from_code"] = {i[0]: x for i, x in zip(insts, extras)}


def roundtrip(ctx, pid, targets, tail_fn, need_events, nsim, depth, ngen, steps, variants, scripted=()):
    """Generation (witnesses by trap invariants, tlc -simulate, the driver's seeded generator over the QoS
    grid) -> execution on the real API -> validation by TLC.  Returns (trace, jobs)."""
    quick, seed = ctx.quick, ctx.seed
    plan = witness_plan()
    rnd = random.Random(seed)
    # quick: two of the cheap targets are regenerated by TLC in this run, the others come from the committed cache
    light = sorted(t for t in targets if t not in HEAVY_TARGETS)
    regen = set(targets) if not quick else set(rnd.sample(light, min(2, len(light))))
    wits = witnesses(ctx, targets, regen)
    jobs, labels = [], []
    for t in targets:
        q = plan[t][0]
        vs = [(v[0], v[1], 8) for v in variants]
        if t in ALIGNED_TARGETS:
            # over-aligned payloads: the first chunk of the data segment starts at another place; the declared
            # worst case must still fit (alignment 16 / 64 / 256 x payload kind x service variant)
            vs += [(v[0], v[1], a) for a in (16, 64, 256) for v in variants]
        for payload, variant, align in vs:
            jobs.append({"cfg": dict(q, payload=payload, variant=variant, align=align), "program": wits[t] + tail_fn(t, q)})
            labels.append(f"witness:{t}")
        if len(ctx.samples) < 2:
            ctx.sample({"witness": t, "from": "TLC trap invariant" if t in regen else "cache (TLC trap invariant)",
                        "qos": short(q), "program": [describe(dict(e, k="op")) for e in wits[t]]})
    ctx.coverage["witnesses"] = {t: {"calls": len(wits[t]), "regenerated_by_tlc_in_this_run": t in regen} for t in targets}

    for j in scripted:
        jobs.append(j)
        labels.append("scripted")

    sel = seed % 3
    simq = qos(maxpubs=2, maxsubs=3, bufmax=2, hist=2, borrow=2, loan=2, overflow=(sel == 0),
               strategy=("discard", "retry_fail", "retry_discard")[sel])
    sn = read_chunks(ctx, [simq], "sim")[0]
    # one half plain (split form of send where the handler can run), one half with connection faults and a
    # small expired-connection buffer
    n1 = (nsim + 1) // 2
    progs = [(simq, p) for p in simulate(ctx, "SIM", simq, [1, 2, 3], [1, 2, 3], [1, 2], [0, 1, 2], 60, sn, n1, depth, seed,
                                         opts=inst_opts(split=True))]
    simf = dict(simq, expbuf=(1, 2, 64)[seed % 3])
    progs += [(simf, p) for p in simulate(ctx, "SIMF", simf, [1, 2, 3, 4], [1, 2, 3], [1, 2], [0, 1, 2], 60, sn, nsim - n1,
                                          depth, seed + 1, opts=inst_opts(faults=True, split=True, degs=("warn", "ignore", "fail")))]
    for i, (sq, prog) in enumerate(progs):
        jobs.append({"cfg": dict(sq, payload=("u64", "slice")[i % 2], variant=("ipc", "local")[(i // 2) % 2]),
                     "program": prog})
        labels.append("simulated")
    gen = grid_jobs(seed, ngen, steps, full=not quick)
    jobs += gen
    labels += ["generated"] * len(gen)

    trace, summ = execute(ctx, jobs, "roundtrip")
    ctx.evaluations += summ["runs"]
    ctx.distinct += len({json.dumps(j, sort_keys=True) for j in jobs})
    ctx.coverage["events"] = summ["events"]
    ctx.coverage["event_counts"] = summ["counts"]
    ctx.coverage["jobs"] = {l: labels.count(l) for l in sorted(set(labels))}
    ctx.coverage["qos_cells_executed"] = len({json.dumps({k: v for k, v in j["cfg"].items()
                                                           if k not in ("maxpubs", "maxsubs")}, sort_keys=True)
                                              for j in gen})
    ctx.coverage["qos_cells_total"] = len(qos_grid())
    if summ["panics"]:
        ctx.note(f"{summ['panics']} run(s) of the code under test panicked (recorded as unexplainable events)")
    before = len(ctx.violations)
    validate(ctx, pid, trace, jobs, "roundtrip")
    if len(ctx.violations) == before:
        # vacuity guard (only meaningful when the executions conform)
        require_counts(summ, need_events, f"{pid} round trip")
    recs = vp.read_ndjson(trace)
    runs = vp.split_runs(recs)
    if len(ctx.samples) < 6 and runs:
        r0 = runs[min(len(runs) - 1, len(targets) * len(variants) + 1)]
        ctx.sample({"recorded_trace": [describe(r) for r in r0[1:40]], "qos": short_reset(r0[0])})
    ctx.coverage["rule"] = ("evaluations = programs executed on real ports (witness, simulated, generated); distinct = "
                            "distinct (QoS, program/seed) jobs; states/transitions = TLC on PubSub.tla instances; "
                            "traces_validated = runs whose every event was explained by PubSubTrace")
    return trace, jobs


def selftest(ctx, pid, trace, pick, mutate, what):
    """Binding demonstration: a corrupted record must be rejected by the trace specification."""
    runs = vp.split_runs(vp.read_ndjson(trace))
    for run in runs:
        idx = [i for i, r in enumerate(run) if pick(r)]
        if idx:
            bad = [dict(r) for r in run]
            mutate(bad[idx[0]])
            p = ctx.path("selftest", f"{what}.ndjson")
            vp.write_ndjson(p, bad)
            d, name = trace_module(ctx, pid)
            v = vp.tlc_trace(d, name, p, libs=["api"])
            if v.accepted:
                raise vp.ToolError(f"binding self-test failed: corrupted trace ({what}) was accepted")
            ctx.coverage.setdefault("selftest", {})[what] = {"rejected_at_record": v.pos, "invariant": v.invariant}
            return
    raise vp.ToolError(f"binding self-test {what}: no suitable record in the trace")


def replay_common(ctx, pid, path):
    body = json.load(open(path))
    print(json.dumps({k: body.get(k) for k in ("what", "qos", "first_unexplained", "invariant")}, indent=1))
    if body.get("kind") == "trace" and body.get("job") and "conc" in body["job"]:
        # an execution of the concurrent phase: the whole phase is deterministic (DFS order / seeded walks)
        vp.cargo_build([DRIVER])
        before = len(ctx.violations)
        concurrent_phase(ctx, pid)
        again = len(ctx.violations) > before
        print("REPRODUCED" if again else "not reproduced on the current tree")
        return 1 if again else 0
    if body.get("kind") == "trace" and body.get("job"):
        vp.cargo_build([DRIVER])
        trace, summ = execute(ctx, [body["job"]], "replay")
        before = len(ctx.violations)
        validate(ctx, pid, trace, [body["job"]], "replay")
        for r in vp.read_ndjson(trace)[:400]:
            print(describe(r))
        again = len(ctx.violations) > before
        print("REPRODUCED" if again else "not reproduced on the current tree")
        return 1 if again else 0
    print(json.dumps(body.get("counterexample"), indent=1))
    return 0


def history_matrix_jobs(variants):
    """Scripted late-joiner programs: every legal (buffer, history request) pair against a publisher that
    already sent three (full history), two, one (partially filled history) or no samples; the verdict comes from the trace validation like for every other program."""
    jobs = []
    # presend: how many samples the publisher sent before the first late joiner - 3 fills every history ring,
    # 1 leaves a ring of size 2 PARTIALLY filled (a late joiner that requests 2 must get the 1 that exists:
    # seeded change C01/1 skipped the replay whenever fewer samples than requested were available), 0 = empty
    for bufmax, hist, overflow, presend in ((3, 2, True, 3), (3, 2, False, 3), (2, 1, True, 3), (2, 2, False, 3)):
        q = qos(maxpubs=1, maxsubs=1, bufmax=bufmax, hist=hist, borrow=2, loan=1, overflow=overflow,
                strategy="discard" if overflow else "retry_discard")
        prog = [{"a": "create_pub", "p": 1}]
        for _ in range(presend):
            prog += [{"a": "loan", "p": 1}, {"a": "send", "p": 1, "id": 0}]
        s = 0
        for buf in range(1, bufmax + 1):
            for req in range(0, min(hist, buf) + 1):
                s += 1
                if s > 9:
                    break
                prog += [{"a": "create_sub", "s": s, "buf": buf, "req": req}, {"a": "has", "s": s}]
                for _ in range(req + 1):
                    prog += [{"a": "recv", "s": s}, {"a": "drop_sample", "s": s, "id": 0}]
                prog += [{"a": "loan", "p": 1}, {"a": "send", "p": 1, "id": 0}, {"a": "loan", "p": 1},
                         {"a": "send", "p": 1, "id": 0}, {"a": "recv", "s": s}, {"a": "recv", "s": s},
                         {"a": "recv", "s": s}, {"a": "drop_sub", "s": s, "mode": "orderly"}]
        for payload, variant in variants[:2]:
            jobs.append({"cfg": dict(q, payload=payload, variant=variant), "program": prog})
    # partially filled history: one short program per (history size, samples sent so far, buffer, request); the FIRST
    # late joiner meets a ring that holds fewer samples than it requests
    n = 0
    for hist in (2, 3):
        for presend in range(0, hist):
            for buf in range(1, 4):
                for req in range(1, min(hist, buf) + 1):
                    if req <= presend:
                        continue        # covered by the matrix above
                    n += 1
                    overflow = n % 2 == 0
                    q = qos(maxpubs=1, maxsubs=2, bufmax=3, hist=hist, borrow=2, loan=1, overflow=overflow,
                            strategy="discard" if overflow else "retry_discard")
                    prog = [{"a": "create_pub", "p": 1}]
                    for _ in range(presend):
                        prog += [{"a": "loan", "p": 1}, {"a": "send", "p": 1, "id": 0}]
                    prog += [{"a": "create_sub", "s": 1, "buf": buf, "req": req}]
                    if n % 3 == 0:      # connected by the subscriber's own update instead of the next send
                        prog += [{"a": "update_pub", "p": 1}]
                    else:
                        prog += [{"a": "loan", "p": 1}, {"a": "send", "p": 1, "id": 0}]
                    prog += [{"a": "has", "s": 1}]
                    for _ in range(req + 2):
                        prog += [{"a": "recv", "s": 1}, {"a": "drop_sample", "s": 1, "id": 0}]
                    prog += [{"a": "create_sub", "s": 2, "buf": buf, "req": req}, {"a": "loan", "p": 1},
                             {"a": "send", "p": 1, "id": 0}]
                    for _ in range(req + 2):
                        prog += [{"a": "recv", "s": 2}, {"a": "drop_sample", "s": 2, "id": 0}]
                    prog += [{"a": "recv", "s": 1}, {"a": "has", "s": 1}, {"a": "has", "s": 2}]
                    payload, variant = variants[n % len(variants)]
                    jobs.append({"cfg": dict(q, payload=payload, variant=variant), "program": prog})
    return jobs


def amplifier_jobs(variants):
    """Scripted leak amplifier: with the smallest data segment every holder transition is repeated over
    several subscriber / publisher generations; a single chunk leaked (or freed twice) per cycle ends in
    OutOfMemory at a within-limit loan, a reused chunk in a canary mismatch."""
    jobs = []
    for overflow, hist, loan in ((True, 1, 1), (False, 1, 1), (True, 0, 2)):
        q = qos(maxpubs=1, maxsubs=1, bufmax=1, hist=hist, borrow=1, loan=loan, overflow=overflow,
                strategy="discard" if overflow else "retry_fail")
        prog = [{"a": "create_pub", "p": 1}]
        p = 1
        for s in range(1, 10):
            prog += [{"a": "create_sub", "s": s, "buf": 1, "req": min(hist, 1)}]
            for _ in range(3):
                prog += [{"a": "loan", "p": p}, {"a": "send", "p": p, "id": 0}]
            prog += [{"a": "recv", "s": s}, {"a": "recv", "s": s}, {"a": "loan", "p": p}, {"a": "send", "p": p, "id": 0},
                     {"a": "probe", "p": p}]
            if s % 3 == 0:
                prog += [{"a": "drop_sample", "s": s, "id": 0}, {"a": "recv", "s": s}]
            if s % 2 == 0:
                prog += [{"a": "drop_sub", "s": s, "mode": "orderly"}]
            else:
                prog += [{"a": "drop_sub", "s": s, "mode": "zombie"}, {"a": "loan", "p": p}, {"a": "send", "p": p, "id": 0},
                         {"a": "drop_sample", "s": s, "id": 0}]
            prog += [{"a": "update_pub", "p": p}, {"a": "probe", "p": p}, {"a": "loan", "p": p}, {"a": "drop_loan", "p": p, "id": 0}]
            if s in (4, 7):
                prog += [{"a": "drop_pub", "p": p}, {"a": "create_pub", "p": p + 1}, {"a": "probe", "p": p + 1}]
                p += 1
        for payload, variant in variants[:2]:
            jobs.append({"cfg": dict(q, payload=payload, variant=variant), "program": prog})
    return jobs


def _send(p, n=1):
    return [{"a": "loan", "p": p}, {"a": "send", "p": p, "id": 0}] * n


def _take(s, n=1, keep=False):
    return ([{"a": "recv", "s": s}] + ([] if keep else [{"a": "drop_sample", "s": s, "id": 0}])) * n


def fault_jobs(variants):
    """Scripted connection-fault programs.  Class: a connection fault with ONE peer (data segment of a publisher
    removed from the system; sender side of a connection occupied by a foreign sender) must not disturb delivery /
    chunk ownership for the OTHER peers, whatever the degradation handler answers (default Warn / Ignore /
    DegradeAndFail) and wherever the faulty peer sits in the registry (before / after / between the healthy ones,
    in a reused slot)."""
    jobs = []
    n = 0
    for deg in ("fail", "warn", "ignore"):
        for overflow in (True, False):
            q = qos(maxpubs=3, maxsubs=2, bufmax=3, hist=1, borrow=2, loan=1, overflow=overflow,
                    strategy="discard" if overflow else "retry_discard")
            # (a) subscriber side, start-up: the faulty publisher is registered before / between / after the healthy ones
            for order in ((1, 2, 3), (2, 1, 3), (2, 3, 1)):         # position of the faulty publisher 1
                prog = [{"a": "create_pub", "p": p} for p in order]
                prog += _send(2) + [{"a": "break_seg", "p": 1}, {"a": "create_sub", "s": 1, "buf": 3, "req": 1, "deg": deg},
                                    {"a": "has", "s": 1}]
                for _ in range(2):
                    prog += _send(2) + _send(3) + _send(1) + _take(1, 3) + [{"a": "has", "s": 1}]
                # registry change: the update is repeated (and fails again), then the faulty publisher leaves
                prog += [{"a": "create_sub", "s": 2, "buf": 2, "req": 0, "deg": deg}] + _send(2) + _take(1, 2) + _take(2, 2)
                prog += [{"a": "drop_pub", "p": 3}, {"a": "update_sub", "s": 1}] + _send(2) + _take(1, 2) + _take(2, 2)
                prog += [{"a": "drop_pub", "p": 1}, {"a": "has", "s": 1}, {"a": "has", "s": 2}] + _send(2) + _take(1, 2) + _take(2, 2)
                prog += [{"a": "probe", "p": 2}]
                n += 1
                payload, variant = variants[n % len(variants)][:2]
                jobs.append({"cfg": dict(q, payload=payload, variant=variant), "program": prog})
            # (b) subscriber side, run time: a publisher leaves, a new one takes over its (lower) slot and breaks
            prog = [{"a": "create_pub", "p": 1}, {"a": "create_pub", "p": 2}, {"a": "create_sub", "s": 1, "buf": 3, "req": 0, "deg": deg}]
            prog += _send(2, 2) + _take(1) + [{"a": "drop_pub", "p": 1}, {"a": "create_pub", "p": 3}, {"a": "break_seg", "p": 3}]
            prog += _take(1, 3) + [{"a": "has", "s": 1}]
            for _ in range(3):
                prog += _send(2) + _send(3) + _take(1, 2)
            prog += [{"a": "create_pub", "p": 4}] + _send(4) + _send(2) + _take(1, 3) + [{"a": "update_sub", "s": 1}, {"a": "has", "s": 1}]
            prog += [{"a": "drop_pub", "p": 2}, {"a": "create_pub", "p": 5}] + _send(5) + _send(4) + _take(1, 3) + [{"a": "has", "s": 1}]
            n += 1
            payload, variant = variants[n % len(variants)][:2]
            jobs.append({"cfg": dict(q, payload=payload, variant=variant), "program": prog})
        # (c) publisher side: the connection to a NEW subscriber cannot be established while another subscriber
        # (in a higher / lower slot) holds samples and has samples buffered
        for maxsubs, overflow, via in ((2, True, "update_pub"), (2, False, "send"), (3, True, "send"), (3, False, "update_pub")):
            q = qos(maxpubs=1, maxsubs=maxsubs, bufmax=2, hist=0, borrow=2, loan=2, overflow=overflow)
            prog = [{"a": "create_pub", "p": 1, "deg": deg}, {"a": "create_sub", "s": 1, "buf": 2, "req": 0},
                    {"a": "create_sub", "s": 2, "buf": 2, "req": 0}]
            prog += _send(1, 2) + _take(2, 1, keep=True) + _take(1, 1)
            prog += [{"a": "drop_sub", "s": 1, "mode": "orderly"}, {"a": "update_pub", "p": 1},
                     {"a": "create_sub", "s": 3, "buf": 2, "req": 0}, {"a": "occupy", "p": 1, "s": 3}]
            prog += ([{"a": "update_pub", "p": 1}] if via == "update_pub" else _send(1))
            # the publisher goes on working with its memory: the sample subscriber 2 holds must not change
            prog += [{"a": "probe", "p": 1}, {"a": "loan", "p": 1}, {"a": "loan", "p": 1}, {"a": "send", "p": 1, "id": 0},
                     {"a": "send", "p": 1, "id": 0}, {"a": "probe", "p": 1}]
            prog += _take(2, 1, keep=True) + [{"a": "has", "s": 3}, {"a": "recv", "s": 3}] + _send(1, 2)
            prog += [{"a": "drop_sample", "s": 2, "id": 0}, {"a": "drop_sample", "s": 2, "id": 0}] + _take(2, 2) + [{"a": "probe", "p": 1}]
            prog += [{"a": "create_sub", "s": 4, "buf": 1, "req": 0}] + _send(1, 2) + _take(2, 2) + _take(4, 1) + [{"a": "probe", "p": 1}]
            n += 1
            payload, variant = variants[n % len(variants)][:2]
            jobs.append({"cfg": dict(q, payload=payload, variant=variant), "program": prog})
    return jobs


def nested_jobs(variants):
    """Scripted re-entrancy programs: the unable-to-deliver handler of a retrying send runs between the reclaim
    of the returned chunks and the push into the (full) buffer and lets the subscriber act there: return everything
    it owns (buffer + borrows -> the completion queue then carries buffer + borrow + 1 entries), part of it, or
    nothing; the handler answers retry / discard / fail.  Afterwards every holder class is saturated again."""
    jobs = []
    n = 0
    for buf, borrow in ((1, 1), (2, 2), (2, 1), (1, 2), (3, 2)):
        for strategy in ("retry_discard", "retry_fail"):
            for hist in (0, 1):
                q = qos(maxpubs=1, maxsubs=2, bufmax=buf, hist=hist, borrow=borrow, loan=2, overflow=False, strategy=strategy)
                prog = [{"a": "create_sub", "s": 1, "buf": buf, "req": 0}, {"a": "create_pub", "p": 1}]
                for rnd in range(3):
                    # subscriber 1 at full borrow and full buffer
                    prog += (_send(1) + _take(1, 1, keep=True)) * borrow + _send(1, buf)
                    drain = [{"a": "drop_sample", "s": 1, "id": 0}] * borrow + _take(1, buf)
                    if rnd == 0:
                        nest = [{"ops": drain, "act": "retry"}]
                    elif rnd == 1:      # room is made at the second invocation only, the handler then gives up:
                        nest = [{"ops": [{"a": "has", "s": 1}], "act": "retry"}, {"ops": drain, "act": "discard"}]
                    else:               # partial: one sample goes back, one is taken
                        nest = [{"ops": [{"a": "drop_sample", "s": 1, "id": 0}, {"a": "recv", "s": 1}], "act": "retry"},
                                {"ops": [], "act": "fail" if strategy == "retry_fail" else "discard"}]
                    prog += [{"a": "loan", "p": 1}, {"a": "send", "p": 1, "id": 0, "nest": nest}]
                    # the sample pushed after the handler is received and returned before the publisher reclaims
                    prog += _take(1, 1) + [{"a": "recv", "s": 1}, {"a": "has", "s": 1}]
                    # every reference is gone: everything must be usable again
                    prog += [{"a": "drop_sample", "s": 1, "id": 0}] * borrow + _take(1, buf + 1)
                    prog += (_send(1) + _take(1, 1, keep=True)) * borrow + _send(1, buf) + [{"a": "recv", "s": 1}, {"a": "probe", "p": 1}]
                    prog += [{"a": "drop_sample", "s": 1, "id": 0}] * borrow + _take(1, buf + 1) + [{"a": "probe", "p": 1}]
                    if rnd == 1:    # a second subscriber is served while the first one blocks
                        prog += [{"a": "create_sub", "s": 2, "buf": 1, "req": 0}]
                n += 1
                payload, variant = variants[n % len(variants)][:2]
                jobs.append({"cfg": dict(q, payload=payload, variant=variant), "program": prog})
    return jobs


def expired_jobs(variants):
    """Scripted programs with a SMALL expired-connection buffer: publishers leave while the subscriber still holds
    samples of some of them and has undelivered samples of others; when the buffer overflows only a connection
    without held samples may be sacrificed."""
    jobs = []
    n = 0
    for expbuf, borrow in ((2, 2), (1, 2), (1, 1), (3, 3)):
        cap = max(expbuf, borrow)
        for first in ("held", "data"):
            for upd in ("update_sub", "has"):
                q = qos(maxpubs=2, maxsubs=1, bufmax=2, hist=0, borrow=borrow, loan=1, overflow=(n % 2 == 0), expbuf=expbuf)
                u = [{"a": upd, "s": 1}]
                prog = [{"a": "create_sub", "s": 1, "buf": 2, "req": 0}]
                p = 0
                # fill the expired buffer: cap - 1 connections with a held sample (no data) and one with data only
                order = (["held"] * (cap - 1) + ["data"]) if first == "held" else (["data"] + ["held"] * (cap - 1))
                # the publisher that stays until the end; a sample of it is held
                p += 1
                stay = p
                prog += [{"a": "create_pub", "p": stay}] + _send(stay) + _take(1, 1, keep=True)
                for kind in order:
                    p += 1
                    prog += [{"a": "create_pub", "p": p}] + _send(p)
                    if kind == "held":
                        prog += _take(1, 1, keep=True)
                    else:
                        prog += [{"a": "update_sub", "s": 1}]
                    prog += [{"a": "drop_pub", "p": p}] + u
                # now the last publisher with a held sample leaves: the buffer is full
                prog += [{"a": "drop_pub", "p": stay}] + u
                prog += [{"a": "has", "s": 1}, {"a": "recv", "s": 1}, {"a": "recv", "s": 1}]
                p += 1
                prog += [{"a": "create_pub", "p": p}] + _send(p) + [{"a": "recv", "s": 1}]
                prog += [{"a": "drop_sample", "s": 1, "id": 0}] * (cap + 2) + _take(1, 3) + [{"a": "has", "s": 1}, {"a": "probe", "p": p}]
                n += 1
                payload, variant = variants[n % len(variants)][:2]
                jobs.append({"cfg": dict(q, payload=payload, variant=variant), "program": prog})
    return jobs


# ---------------------------------------------------------------------------------------------
# real concurrency under the deterministic scheduler: publisher thread || subscriber thread on ONE connection

def conc_jobs(quick):
    """Concurrent programs for `drv-pubsub conc`: a sequential prologue builds a state (subscriber at full
    borrow / full buffer, ...), then the publisher thread and the subscriber thread run their calls under the
    scheduler (every schedule with <= bound preemptions at the atomic accesses of the connection), then a
    sequential epilogue saturates every holder class again.  With one publisher and one subscriber the port
    calls are linearizable w.r.t. PubSub.tla; strategy DiscardData (no handler: every call is one action)."""
    jobs = []
    for buf, borrow, overflow, hist, variant, payload in ((2, 2, False, 0, "local", "u64"), (1, 1, False, 1, "ipc", "slice"),
                                                          (2, 1, True, 1, "local", "slice"), (1, 2, True, 0, "ipc", "u64")):
        q = qos(maxpubs=1, maxsubs=1, bufmax=buf, hist=hist, borrow=borrow, loan=2, overflow=overflow,
                payload=payload, variant=variant)
        pre = [{"a": "create_sub", "s": 1, "buf": buf, "req": 0}, {"a": "create_pub", "p": 1}]
        pre += (_send(1) + _take(1, 1, keep=True)) * borrow + _send(1, buf) + [{"a": "loan", "p": 1}]
        # the subscriber returns everything it owns while the publisher sends (reclaim ... push)
        sub = [{"a": "drop_sample", "s": 1, "id": 0}] * borrow + _take(1, buf)
        pub = [{"a": "send", "p": 1, "id": 0}]
        post = _take(1, 1) + [{"a": "recv", "s": 1}]
        post += (_send(1) + _take(1, 1, keep=True)) * borrow + _send(1, buf) + [{"a": "recv", "s": 1}, {"a": "probe", "p": 1}]
        post += [{"a": "drop_sample", "s": 1, "id": 0}] * borrow + _take(1, buf + 1) + [{"a": "probe", "p": 1}, {"a": "has", "s": 1}]
        jobs.append({"cfg": q, "pre": pre, "pub": pub, "sub": sub, "post": post, "bound": 1, "runs": 400})
        if quick and len(jobs) == 2:
            break       # quick: the first two configurations, every schedule with one preemption
        if not quick:
            # longer phases, two preemptions
            pub2 = [{"a": "send", "p": 1, "id": 0}, {"a": "loan", "p": 1}, {"a": "send", "p": 1, "id": 0}, {"a": "probe", "p": 1}]
            sub2 = sub + _take(1, 1) + [{"a": "has", "s": 1}]
            jobs.append({"cfg": q, "pre": pre, "pub": pub2, "sub": sub2, "post": post, "bound": 2, "runs": 600})
    return jobs


def expand_conc(recs):
    """conc records -> alternatives: one per linearization of the overlapping calls (TraceIO.tla)"""
    out, stats = [], {"blocks": 0, "alternatives": 0, "max_alternatives": 0}
    for r in recs:
        if r.get("k") != "conc":
            out.append(r)
            continue
        ops = [(o["c"], o["r"], o["rec"]) for o in r["ops"]]
        lins = vp.linearizations(ops, limit=3000)
        seen, uniq = set(), []
        for l in lins:
            key = json.dumps(l, sort_keys=True)
            if key not in seen:
                seen.add(key)
                uniq.append(l)
        stats["blocks"] += 1
        stats["alternatives"] += len(uniq)
        stats["max_alternatives"] = max(stats["max_alternatives"], len(uniq))
        out += vp.alt_block(uniq)
    return out, stats


def concurrent_phase(ctx, pid, mode_extra=None):
    """publisher thread || subscriber thread under vlib::sched on the real ports; every execution is validated
    as the set of its linearizations by PubSubTrace (AltJump)."""
    jobs = conc_jobs(ctx.quick)
    if mode_extra is None:
        mode_extra = () if ctx.quick else ("random",)
    d = ctx.path("conc", "x")[:-2]
    total = {"executions": 0, "overlapping": 0, "exhausted": 0, "jobs": len(jobs), "alternatives": 0, "max_alternatives": 0}
    pieces, metas = [], []
    for mode in ("dfs",) + tuple(mode_extra):
        jp = os.path.join(d, f"conc-{mode}.jobs.json")
        out = os.path.join(d, f"conc-{mode}.raw.ndjson")
        js = jobs if mode == "dfs" else [dict(j, runs=60 if ctx.quick else 150) for j in jobs]
        with open(jp, "w") as f:
            json.dump(js, f)
        _, so, _ = vp.run_driver(DRIVER, ["conc", "--work", d, "--jobs", jp, "--out", out, "--mode", mode], timeout=3000)
        summ = vp.last_json_line(so)
        for j in summ["jobs"]:
            total["executions"] += j["executions"]
            total["overlapping"] += j["overlapping"]
            total["exhausted"] += 1 if j.get("exhausted") else 0
            if j["anomalies"]:
                ctx.note(f"concurrent phase ({mode}): {j['anomalies']} execution(s) did not complete (recorded as panic events)")
        recs, st = expand_conc(vp.read_ndjson(out))
        total["alternatives"] += st["alternatives"]
        total["max_alternatives"] = max(total["max_alternatives"], st["max_alternatives"])
        exp = os.path.join(d, f"conc-{mode}.ndjson")
        vp.write_ndjson(exp, recs)
        nruns = len(vp.split_runs(recs))
        before = len(ctx.violations)
        validate(ctx, pid, exp, [{"conc": mode, "jobs_file": jp}] * nruns, f"concurrent-{mode}")
        ctx.evaluations += nruns
        if len(ctx.violations) == before and summ["counts"].get("send:ok", 0) == 0:
            raise vp.ToolError("vacuous concurrent phase: no send executed")
    if total["overlapping"] == 0:
        raise vp.ToolError("vacuous concurrent phase: no execution with overlapping calls")
    ctx.coverage["concurrent_phase"] = total
    if not ctx.quick and not ctx.violations:
        # binding self-test: the recipient count of the concurrent send is changed in EVERY linearization
        runs = vp.split_runs(vp.read_ndjson(os.path.join(d, "conc-dfs.ndjson")))
        for run in runs:
            if any(r.get("k") == "alt" for r in run):
                bad = [dict(r) for r in run]
                k0 = next(i for i, r in enumerate(bad) if r.get("k") == "alt")
                for r in bad[k0:]:
                    if r.get("a") == "send" and r.get("r") == "ok":
                        r["n"] = 1 - r["n"]
                    if r.get("k") == "altjoin" and r.get("to") == 1:
                        break
                sp = ctx.path("selftest", "conc_recipients_changed.ndjson")
                vp.write_ndjson(sp, bad)
                dd, name = trace_module(ctx, pid)
                v = vp.tlc_trace(dd, name, sp, libs=["api"])
                if v.accepted:
                    raise vp.ToolError("binding self-test failed: corrupted concurrent execution was accepted")
                ctx.coverage.setdefault("selftest", {})["conc_recipients_changed"] = {"rejected_at_record": v.pos}
                break


def over_borrow_panic_jobs(variants):
    """The shortest history of the known finding pubsub:expired-connection-buffer-panic-after-over-borrow (a
    consequence of the per-connection borrow limit); executed in every run so that the finding is re-observed
    deterministically and not only when the seeded generator happens to reach it."""
    q = qos(maxpubs=2, maxsubs=1, bufmax=1, hist=0, borrow=1, loan=1, overflow=True, expbuf=1)
    prog = [{"a": "create_sub", "s": 1, "buf": 1, "req": 0}, {"a": "create_pub", "p": 1}, {"a": "create_pub", "p": 2}]
    prog += _send(1) + _send(2) + [{"a": "recv", "s": 1}, {"a": "recv", "s": 1}, {"a": "drop_pub", "p": 1}, {"a": "drop_pub", "p": 2},
                                   {"a": "update_sub", "s": 1}, {"a": "has", "s": 1}]
    return [{"cfg": dict(q, payload=v[0], variant=v[1]), "program": prog} for v in variants[:2]]


def stale_key_jobs(variants):
    """Regression program of the repaired finding pubsub:healthy-connection-dropped:stale-connection-key-after-failed-attach
    (known_findings.json, status fixed): the subscriber's attach to the publisher that took over a registry slot fails
    while the slot still refers to its previous connection; later a healthy publisher's connection was dropped."""
    q = qos(maxpubs=3, maxsubs=1, bufmax=2, hist=0, borrow=2, loan=1, overflow=False)
    u = [{"a": "update_sub", "s": 1}]
    prog = [{"a": "create_sub", "s": 1, "buf": 2, "req": 0}, {"a": "create_pub", "p": 1}, {"a": "create_pub", "p": 2}] + u
    prog += [{"a": "drop_pub", "p": 2}, {"a": "create_pub", "p": 3}, {"a": "break_seg", "p": 3}] + u
    prog += [{"a": "drop_pub", "p": 1}] + u + [{"a": "create_pub", "p": 4}, {"a": "create_pub", "p": 5}] + u
    prog += _send(5) + [{"a": "drop_pub", "p": 4}] + u + _take(1, 1) + [{"a": "recv", "s": 1}]
    prog += _send(5) + [{"a": "has", "s": 1}, {"a": "recv", "s": 1}] + _send(5) + [{"a": "recv", "s": 1}]
    return [{"cfg": dict(q, payload=v[0], variant=v[1]), "program": prog} for v in variants[:2]]


def regen_witnesses():
    """python3 lib/ps_common.py regen  - rewrites spec/api/PubSubWitnesses.json (run after changing PubSub.tla)"""
    ctx = vp.Ctx("PSWIT", "thorough", 1)
    vp.cargo_build([DRIVER])
    plan = witness_plan()
    if os.path.exists(WITNESS_FILE):
        os.remove(WITNESS_FILE)
    out = witnesses(ctx, list(plan), set(plan))
    with open(WITNESS_FILE, "w") as f:
        json.dump(out, f, indent=0, sort_keys=True)
    print({k: len(v) for k, v in out.items()})


if __name__ == "__main__":
    import sys
    if sys.argv[1:] == ["regen"]:
        regen_witnesses()
